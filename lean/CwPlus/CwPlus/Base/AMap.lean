import CwPlus.Base.Num
/-!
Association-list maps modelling `cw_storage_plus::Map`.  First-match lookup,
replace-or-append update.  `NodupKeys` is an invariant proved preserved once.
-/
namespace CwPlus

abbrev AMap (κ ν : Type) := List (κ × ν)

namespace AMap
variable {κ ν : Type} [DecidableEq κ]
set_option linter.unusedSectionVars false

def get? (m : AMap κ ν) (k : κ) : Option ν :=
  match m with
  | [] => none
  | (k', v) :: rest => if k' = k then some v else get? rest k

def set (m : AMap κ ν) (k : κ) (v : ν) : AMap κ ν :=
  match m with
  | [] => [(k, v)]
  | (k', v') :: rest => if k' = k then (k, v) :: rest else (k', v') :: set rest k v

def erase (m : AMap κ ν) (k : κ) : AMap κ ν :=
  match m with
  | [] => []
  | (k', v') :: rest => if k' = k then erase rest k else (k', v') :: erase rest k

def keys (m : AMap κ ν) : List κ := m.map (·.1)

def NodupKeys (m : AMap κ ν) : Prop := (keys m).Nodup

def contains (m : AMap κ ν) (k : κ) : Bool := (get? m k).isSome

@[simp] theorem get?_nil (k : κ) : get? ([] : AMap κ ν) k = none := rfl

@[simp] theorem get?_set_eq (m : AMap κ ν) (k : κ) (v : ν) : get? (set m k v) k = some v := by
  fun_induction set m k v <;> grind [get?]

@[simp] theorem get?_set_ne (m : AMap κ ν) (k k2 : κ) (v : ν) (h : k ≠ k2) :
    get? (set m k v) k2 = get? m k2 := by
  fun_induction set m k v <;> grind [get?]

theorem get?_set (m : AMap κ ν) (k k2 : κ) (v : ν) :
    get? (set m k v) k2 = if k = k2 then some v else get? m k2 := by
  by_cases h : k = k2
  · subst h; simp
  · simp [h]

theorem mem_keys_erase {m : AMap κ ν} {k x : κ} : x ∈ keys (erase m k) ↔ (x ∈ keys m ∧ x ≠ k) := by
  fun_induction erase m k <;> grind [keys]

@[simp] theorem get?_erase_eq (m : AMap κ ν) (k : κ) : get? (erase m k) k = none := by
  fun_induction erase m k <;> grind [get?]

@[simp] theorem get?_erase_ne (m : AMap κ ν) (k k2 : κ) (h : k ≠ k2) :
    get? (erase m k) k2 = get? m k2 := by
  fun_induction erase m k <;> grind [get?]

theorem get?_erase (m : AMap κ ν) (k k2 : κ) :
    get? (erase m k) k2 = if k = k2 then none else get? m k2 := by
  by_cases h : k = k2
  · subst h; simp
  · simp [h]

theorem get?_eq_none_iff {m : AMap κ ν} {k : κ} : get? m k = none ↔ k ∉ keys m := by
  fun_induction get? m k <;> grind [keys]

theorem keys_set_of_mem {m : AMap κ ν} {k : κ} {v : ν} (h : k ∈ keys m) : keys (set m k v) = keys m := by
  fun_induction set m k v <;> grind [keys]

theorem keys_set_of_not_mem {m : AMap κ ν} {k : κ} {v : ν} (h : k ∉ keys m) : keys (set m k v) = keys m ++ [k] := by
  fun_induction set m k v <;> grind [keys]

theorem mem_keys_set {m : AMap κ ν} {k x : κ} {v : ν} : x ∈ keys (set m k v) ↔ (x ∈ keys m ∨ x = k) := by
  fun_induction set m k v <;> grind [keys]

theorem nodup_set {m : AMap κ ν} {k : κ} {v : ν} (h : NodupKeys m) : NodupKeys (set m k v) := by
  unfold NodupKeys at *
  by_cases hk : k ∈ keys m
  · rw [keys_set_of_mem hk]; exact h
  · rw [keys_set_of_not_mem hk]
    rw [List.nodup_append]
    refine ⟨h, by simp, ?_⟩
    intro a ha b hb
    simp at hb; subst hb
    intro e; subst e; exact hk ha

theorem nodup_erase {m : AMap κ ν} {k : κ} (h : NodupKeys m) : NodupKeys (erase m k) := by
  unfold NodupKeys at *
  fun_induction erase m k
  · simp [keys]
  · rename_i ih; simp [keys] at h; exact ih (by simpa [keys] using h.2)
  · rename_i k' v' rest hne ih
    simp only [keys, List.map_cons, List.nodup_cons] at h ⊢
    refine ⟨?_, ih h.2⟩
    intro hm
    have := (mem_keys_erase (m := rest) (k := k) (x := k')).mp hm
    exact h.1 this.1

/-- Sum of the values of a `Nat`-valued map. -/
def sum (m : AMap κ Nat) : Nat := (m.map (·.2)).sum

@[simp] theorem sum_nil : sum ([] : AMap κ Nat) = 0 := rfl
@[simp] theorem sum_cons (p : κ × Nat) (m : AMap κ Nat) : sum (p :: m) = p.2 + sum m := by
  simp [sum]

/-- Setting a key changes the sum by exactly the difference at that key. -/
theorem sum_set (m : AMap κ Nat) (k : κ) (v : Nat) :
    sum (set m k v) + (get? m k).getD 0 = sum m + v := by
  induction m with
  | nil => simp [set, get?, sum]
  | cons p rest ih =>
    obtain ⟨k', v'⟩ := p
    by_cases h : k' = k
    · subst h; simp [set, get?]; omega
    · simp [set, get?, h]; omega

theorem get?_le_sum (m : AMap κ Nat) (k : κ) : (get? m k).getD 0 ≤ sum m := by
  induction m with
  | nil => simp [get?]
  | cons p rest ih =>
    obtain ⟨k', v'⟩ := p
    by_cases h : k' = k
    · subst h; simp [get?]
    · simp [get?, h]; omega

/-- Two distinct keys together never hold more than the sum. -/
theorem get?_add_get?_le_sum (m : AMap κ Nat) (k1 k2 : κ) (hne : k1 ≠ k2) :
    (get? m k1).getD 0 + (get? m k2).getD 0 ≤ sum m := by
  induction m with
  | nil => simp [get?]
  | cons p rest ih =>
    obtain ⟨k', v'⟩ := p
    by_cases h1 : k' = k1
    · subst h1
      have := get?_le_sum rest k2
      simp [get?, hne]; omega
    · by_cases h2 : k' = k2
      · subst h2
        have := get?_le_sum rest k1
        simp [get?, h1]; omega
      · simp [get?, h1, h2]; omega

theorem sum_erase (m : AMap κ Nat) (k : κ) (h : NodupKeys m) :
    sum (erase m k) + (get? m k).getD 0 = sum m := by
  induction m with
  | nil => simp [erase, get?]
  | cons p rest ih =>
    obtain ⟨k', v'⟩ := p
    have h' : NodupKeys rest := by
      unfold NodupKeys keys at *; simp at h; exact h.2
    by_cases h1 : k' = k
    · subst h1
      have hn : k' ∉ keys rest := by unfold NodupKeys keys at h; simp at h; simpa [keys] using h.1
      have e : get? rest k' = none := get?_eq_none_iff.mpr hn
      have := ih h'
      simp [erase, get?, e] at *; omega
    · have := ih h'
      simp [erase, get?, h1]; omega

end AMap
end CwPlus
