import CwPlus.Base.AMap
/-!
# Byte-level storage: the cw-storage-plus 2.0.0 key layout and the JSON text of stored numbers

What `deps.storage` really holds is a map from byte strings to byte strings.  This file models that level
for the cw4 contracts (cw4-group, cw4-stake), transcribed from

* cosmwasm-std 2.0.2 `storage_keys/length_prefixed.rs`: `encode_length` (the length as `u32`, bytes 2 and 3
  of its big-endian form; the Rust code *panics* for a component longer than `0xFFFF`), `to_length_prefixed`,
  `namespace_with_key(namespace: &[&[u8]], key) = concat(to_length_prefixed(c) for c in namespace) ++ key`;
* cw-storage-plus 2.0.0 `item.rs` (`Item::save`: `store.set(self.storage_key.as_slice(), ..)` — an `Item` lives
  under the *raw* bytes of its namespace string), `map.rs` `Map::key` → `path.rs` `Path::new(namespace, keys)`
  `= namespace_with_key([namespace] ++ keys[0..l-1], keys[l-1])` (every key part but the last is length-prefixed,
  like the namespace), `keys.rs` (`&Addr`/`Addr`/`&str`: the UTF-8 bytes; `u64`: `to_cw_bytes` = 8 bytes
  big-endian; a pair `(a, b)`: the parts of `a` followed by the parts of `b`; `()`: no part),
  `snapshot/mod.rs` (`changelog: Map<(K, u64), ChangeSet<T>>`, `checkpoints: Map<u64, u32>`; with
  `Strategy::EveryBlock` nothing ever writes a checkpoint), `snapshot/item.rs` (`Snapshot<(), T>`: the changelog
  key of a `SnapshotItem` is the height alone), `snapshot/map.rs`;
* `packages/cw4/src/query.rs`: `TOTAL_KEY`, `MEMBERS_KEY`, `…_CHECKPOINTS`, `…_CHANGELOG`,
  `member_key(addr) = [b"\x00", &[MEMBERS_KEY.len() as u8], MEMBERS_KEY.as_bytes()].concat() ++ addr.as_bytes()`;
* `contracts/cw4-group/src/state.rs`, `contracts/cw4-stake/src/state.rs`, cw-controllers 2.0.0 (`Admin`, `Hooks`
  are `Item`s, `Claims` is a `Map<&Addr, Vec<Claim>>`), cw2 2.0.0 (`CONTRACT: Item = "contract_info"`).

Values are `to_json_vec(data)` (serde-json-wasm): a `u64` is its decimal digits, a `Uint128` the decimal digits
in double quotes, `ChangeSet { old: Option<u64> }` is `{"old":null}` / `{"old":<digits>}`.  Values whose JSON
text is not modelled (admin, hooks, config, claims, cw2 version) are `Val.opaque`: their *keys* are exact.

Bytes are natural numbers `< 256` (lists of `Nat` prove more easily than `UInt8`; `strBytes_lt`, `len2_lt`,
`be8_lt`, `natDigits_lt` give the bound where it matters).  Core only: linked into the `driver` executable.
-/
namespace CwPlus.RawStore

/-- A byte string; every element is `< 256`. -/
abbrev Bytes := List Nat

/-- The UTF-8 bytes of a string (`str::as_bytes`). -/
def strBytes (s : String) : Bytes := s.toUTF8.data.toList.map (·.toNat)

/-- `encode_length`: the length as a 2-byte big-endian integer (bytes 2 and 3 of the `u32`).  The Rust code
panics for lengths above `0xFFFF`; below that bound the encoding is injective (`len2_inj`). -/
def len2 (n : Nat) : Bytes := [n / 256 % 256, n % 256]

/-- `to_length_prefixed(component)` -/
def lp (b : Bytes) : Bytes := len2 b.length ++ b

/-- `namespace_with_key(namespace, key)` -/
def nsKey (components : List Bytes) (key : Bytes) : Bytes := components.flatMap lp ++ key

/-- Storage key of an `Item` with namespace `ns`: the namespace bytes themselves. -/
def itemKey (ns : Bytes) : Bytes := ns

/-- Storage key of a `Map` entry (`Path::new(ns, parts ++ [last])`): the namespace and every key part but the
last are length-prefixed; the last part is appended raw. -/
def mapKey (ns : Bytes) (parts : List Bytes) (last : Bytes) : Bytes := nsKey (ns :: parts) last

/-- `u64::to_cw_bytes` = `to_be_bytes`: 8 bytes, big-endian. -/
def be8 (n : Nat) : Bytes :=
  [n / 2 ^ 56 % 256, n / 2 ^ 48 % 256, n / 2 ^ 40 % 256, n / 2 ^ 32 % 256,
   n / 2 ^ 24 % 256, n / 2 ^ 16 % 256, n / 2 ^ 8 % 256, n % 256]

/-! ## JSON text of the stored numbers -/

/-- `digitsAux fuel n`: the decimal digits of `n`, most significant first, by structural recursion on `fuel`
(so that concrete instances reduce in the kernel); exact whenever `n < 10 ^ (fuel + 1)`. -/
def digitsAux : Nat → Nat → Bytes
  | 0, n => [48 + n]
  | f + 1, n => if n < 10 then [48 + n] else digitsAux f (n / 10) ++ [48 + n % 10]

/-- Decimal digits of a number as ASCII bytes (`to_json_vec(&u64)`): no sign, no leading zero, `0` is `"0"`.
Satisfies `natDigits n = if n < 10 then [48 + n] else natDigits (n / 10) ++ [48 + n % 10]`
(`natDigits_unfold`). -/
def natDigits (n : Nat) : Bytes := digitsAux n n

/-- Reading decimal digits, most significant first, into an accumulator; `none` on any other byte. -/
def parseAcc : Bytes → Nat → Option Nat
  | [], acc => some acc
  | d :: ds, acc => if 48 ≤ d ∧ d ≤ 57 then parseAcc ds (acc * 10 + (d - 48)) else none

/-- Parse a non-empty string of ASCII digits. -/
def parseNat (b : Bytes) : Option Nat := if b = [] then none else parseAcc b 0

/-- `Uint128` serialises as a JSON string: `"<digits>"`. -/
def quotedDigits (n : Nat) : Bytes := 34 :: (natDigits n ++ [34])

/-- `to_json_vec(&ChangeSet { old })` for a numeric `old`: `{"old":null}` / `{"old":<digits>}`. -/
def changeSetJson (old : Option Nat) : Bytes :=
  strBytes "{\"old\":" ++ (match old with | none => strBytes "null" | some v => natDigits v) ++ strBytes "}"

/-! ## The store -/

/-- A stored value: its exact bytes, or a value whose JSON text is not modelled (only its key is). -/
inductive Val where
  | bytes (b : Bytes)
  | opaque
  deriving Repr, DecidableEq, Inhabited

/-- The raw image of a contract's storage: `(key, value)` entries.  Reading takes the first entry of a key
(`get?`); the images built by `encode` have no key twice on reachable states (`Props/C09Raw.lean`). -/
abbrev Store := List (Bytes × Val)

/-- `Storage::get(key)` -/
def get? : Store → Bytes → Option Val
  | [], _ => none
  | (k', v) :: rest, k => if k' = k then some v else get? rest k

/-- All keys, in the order of the entries. -/
def keys (st : Store) : List Bytes := st.map (·.1)

/-- `from_json::<u64>` of what a raw query returns: absent key, opaque value and unparsable bytes give `none`. -/
def readNat (st : Store) (k : Bytes) : Option Nat :=
  match get? st k with
  | some (.bytes b) => parseNat b
  | _ => none

/-! ## The namespaces of the cw4 contracts (every string checked against the Rust sources) -/

namespace NS
/-- `cw4::TOTAL_KEY` -/
def total : Bytes := strBytes "total"
/-- `cw4::TOTAL_KEY_CHECKPOINTS` -/
def totalCheckpoints : Bytes := strBytes "total__checkpoints"
/-- `cw4::TOTAL_KEY_CHANGELOG` -/
def totalChangelog : Bytes := strBytes "total__changelog"
/-- `cw4::MEMBERS_KEY` -/
def members : Bytes := strBytes "members"
/-- `cw4::MEMBERS_CHECKPOINTS` -/
def membersCheckpoints : Bytes := strBytes "members__checkpoints"
/-- `cw4::MEMBERS_CHANGELOG` -/
def membersChangelog : Bytes := strBytes "members__changelog"
/-- `ADMIN: Admin = Admin::new("admin")` (both contracts) -/
def admin : Bytes := strBytes "admin"
/-- `HOOKS: Hooks = Hooks::new("cw4-hooks")` (both contracts) -/
def hooks : Bytes := strBytes "cw4-hooks"
/-- cw2 `CONTRACT: Item<ContractVersion> = Item::new("contract_info")` (both contracts call `set_contract_version`) -/
def contractInfo : Bytes := strBytes "contract_info"
/-- cw4-stake `CONFIG: Item<Config> = Item::new("config")` -/
def config : Bytes := strBytes "config"
/-- cw4-stake `STAKE: Map<&Addr, Uint128> = Map::new("stake")` -/
def stake : Bytes := strBytes "stake"
/-- cw4-stake `CLAIMS: Claims = Claims::new("claims")` (a `Map<&Addr, Vec<Claim>>`) -/
def claims : Bytes := strBytes "claims"

/-- Namespaces used as `Item`s by cw4-group / cw4-stake. -/
def items : List Bytes := [total, admin, hooks, contractInfo, config]
/-- Namespaces used as `Map`s by cw4-group / cw4-stake (primary maps, changelogs, checkpoints). -/
def maps : List Bytes :=
  [members, membersChangelog, membersCheckpoints, totalChangelog, totalCheckpoints, stake, claims]
end NS

/-- The raw key of the total weight: `cw4::TOTAL_KEY.as_bytes()`. -/
def totalKey : Bytes := itemKey NS.total

/-- `cw4::member_key(addr)` exactly as written in `packages/cw4/src/query.rs`:
`[b"\x00", &[MEMBERS_KEY.len() as u8], MEMBERS_KEY.as_bytes()].concat()` followed by the address bytes. -/
def memberKey (addr : String) : Bytes := [0] ++ [NS.members.length % 256] ++ NS.members ++ strBytes addr

/-- `MEMBERS.key(&addr)`: the primary key of the snapshot map as cw-storage-plus builds it. -/
def membersPrimaryKey (addr : String) : Bytes := mapKey NS.members [] (strBytes addr)

/-- `MEMBERS.changelog().key((&addr, height))` -/
def membersChangelogKey (addr : String) (h : Nat) : Bytes := mapKey NS.membersChangelog [strBytes addr] (be8 h)

/-- `TOTAL.changelog().key(height)` (cw4-group: `SnapshotItem`) -/
def totalChangelogKey (h : Nat) : Bytes := mapKey NS.totalChangelog [] (be8 h)

/-- A checkpoint key (`Map<u64, u32>` under `<ns>__checkpoints`); never written with `Strategy::EveryBlock`. -/
def checkpointKey (ns : Bytes) (h : Nat) : Bytes := mapKey ns [] (be8 h)

/-- `STAKE.key(&addr)` (cw4-stake) -/
def stakeKey (addr : String) : Bytes := mapKey NS.stake [] (strBytes addr)

/-- `CLAIMS` entry of `addr` (cw4-stake) -/
def claimsKey (addr : String) : Bytes := mapKey NS.claims [] (strBytes addr)

/-! ## Rendering (driver side): hex, byte order, FNV-1a -/

def hexDigit (n : Nat) : Char := if n < 10 then Char.ofNat (48 + n) else Char.ofNat (87 + n)

/-- Lower-case hex, two digits per byte. -/
def hex (b : Bytes) : String :=
  b.foldl (fun s x => (s.push (hexDigit (x / 16 % 16))).push (hexDigit (x % 16))) ""

def renderVal : Val → String
  | .bytes b => hex b
  | .opaque => "*"

/-- Rendered entries in ascending key order.  The order of a `BTreeMap<Vec<u8>, _>` / of the chain's KV store is
the lexicographic order of the byte strings, which is the lexicographic order of their fixed-width hex texts. -/
def sortedRendered (st : Store) : List String :=
  ((st.map fun e => (hex e.1, renderVal e.2)).mergeSort fun a b => decide (a.1 ≤ b.1)).map fun p => p.1 ++ ":" ++ p.2

/-- FNV-1a (64 bit) of the UTF-8 bytes of a string, as 16 hex digits (`common::hash_str`). -/
def fnv1a (s : String) : String :=
  let h : UInt64 := s.toUTF8.data.foldl (fun h b => (h ^^^ b.toUInt64) * 0x100000001b3) 0xcbf29ce484222325
  let n := h.toNat
  String.ofList ((List.range 16).map fun i => hexDigit (n / 16 ^ (15 - i) % 16))

/-- Entries under a snapshot changelog namespace (`members__changelog`, `total__changelog`). -/
def isChangelogKey (k : Bytes) : Bool :=
  (lp NS.membersChangelog).isPrefixOf k || (lp NS.totalChangelog).isPrefixOf k

/-- A dump of entries: in full up to `cap` entries, else `#<count>.<fnv1a of the full text>`. -/
def renderDump (cap : Nat) (st : Store) : String :=
  let full := ",".intercalate (sortedRendered st)
  if st.length ≤ cap then full else s!"#{st.length}.{fnv1a full}"

/-- The observation field `rawkeys`: the published keys as the model lays them out (`T.` total key, `M.`
`member_key` of the probe addresses, `P.` primary key of `MEMBERS` for the same addresses), the complete dump
of the non-changelog entries (`D.`: key and value of every entry, `*` for an unmodelled value) and the dump of
the changelog entries (`C.`: in full up to 16 entries, else count and hash). -/
def renderRawKeys (probes : List String) (st : Store) : String :=
  let prim := st.filter fun e => !isChangelogKey e.1
  let logs := st.filter fun e => isChangelogKey e.1
  s!"T.{hex totalKey}/M.{"+".intercalate (probes.map fun a => hex (memberKey a))}/P.{"+".intercalate (probes.map fun a => hex (membersPrimaryKey a))}/D.{renderDump 1000000 prim}/C.{renderDump 16 logs}"

end CwPlus.RawStore
