import CwPlus.Base.Num
/-!
`cw_utils::NativeBalance` (cw-utils 2.0.0 `balance.rs`): a `Vec<Coin>` kept sorted by
denom by `add_assign`.  A coin is `(denom, amount)`.  The functions below are
transcribed without assuming sortedness / uniqueness: `find` returns the *first*
coin of a denom, `insert_pos` the first position whose denom is `>=`.

`total b d` (the sum of the amounts of all coins of denom `d`) is the measure the
C08 theorems use; on the lists the contract can produce (unique denoms, proved in
`UniqueDenoms`) it is the amount displayed for `d`.
-/
namespace CwPlus

abbrev Coin := String × Nat
abbrev NativeBalance := List (String × Nat)

namespace NativeBalance

/-- `find(denom)`: the amount of the first coin with that denom. -/
def find? : NativeBalance → String → Option Nat
  | [], _ => none
  | (d', a) :: rest, d => if d' = d then some a else find? rest d

/-- `self.0[i].amount = v` for the first coin `i` of denom `d`. -/
def setFirst : NativeBalance → String → Nat → NativeBalance
  | [], _, _ => []
  | (d', a) :: rest, d, v => if d' = d then (d', v) :: rest else (d', a) :: setFirst rest d v

/-- `self.0.remove(i)` for the first coin `i` of denom `d`. -/
def removeFirst : NativeBalance → String → NativeBalance
  | [], _ => []
  | (d', a) :: rest, d => if d' = d then rest else (d', a) :: removeFirst rest d

/-- `insert_pos` + `insert`/`push`: before the first coin whose denom is `>=`, else at the end. -/
def insertPos : NativeBalance → Coin → NativeBalance
  | [], c => [c]
  | (d', a) :: rest, c => if c.1 ≤ d' then c :: (d', a) :: rest else (d', a) :: insertPos rest c

/-- `AddAssign<Coin>`: `Uint128 + Uint128` panics on overflow. -/
def add (b : NativeBalance) (c : Coin) : Res NativeBalance :=
  match find? b c.1 with
  | some held => do
    let v ← addU128 held c.2
    pure (setFirst b c.1 v)
  | none => pure (insertPos b c)

/-- `Sub<Coin>`: error when the denom is missing or the amount insufficient; a coin
that reaches zero is removed. -/
def subCoin (b : NativeBalance) (c : Coin) : Res NativeBalance :=
  match find? b c.1 with
  | none => .error "sub.no_denom"
  | some held =>
    if c.2 ≤ held then
      (if held - c.2 = 0 then .ok (removeFirst b c.1) else .ok (setFirst b c.1 (held - c.2)))
    else .error "sub.underflow"

/-- `Sub<Vec<Coin>>`: coin by coin, the first failure fails the whole subtraction. -/
def subCoins (b : NativeBalance) : List Coin → Res NativeBalance
  | [] => .ok b
  | c :: cs => do
    let b' ← subCoin b c
    subCoins b' cs

/-- `sub_saturating`: removes the coin when `held <= amount`; error only when the denom is missing. -/
def subSaturating (b : NativeBalance) (c : Coin) : Res NativeBalance :=
  match find? b c.1 with
  | none => .error "sub.no_denom"
  | some held => if held ≤ c.2 then .ok (removeFirst b c.1) else .ok (setFirst b c.1 (held - c.2))

/-- `is_empty`: no coin with a non-zero amount. -/
def isEmpty (b : NativeBalance) : Bool := b.all (fun c => c.2 = 0)

/-- `has(required)` -/
def has (b : NativeBalance) (c : Coin) : Bool :=
  match find? b c.1 with
  | some held => decide (c.2 ≤ held)
  | none => false

/-- merge step of `normalize` on a denom-sorted list: equal neighbours are summed. -/
def mergeDups : NativeBalance → NativeBalance
  | [] => []
  | [c] => [c]
  | (d1, a1) :: (d2, a2) :: rest =>
    if d1 = d2 then mergeDups ((d1, a1 + a2) :: rest) else (d1, a1) :: mergeDups ((d2, a2) :: rest)

/-- `normalize` (used only by the test helpers `canonical()` of cw1-subkeys): drop zeros, sort by denom,
merge duplicates (the `+=` overflow panic is not modelled, this function is not on any handler path). -/
def normalize (b : NativeBalance) : NativeBalance :=
  mergeDups ((b.filter (fun c => c.2 ≠ 0)).mergeSort (fun x y => decide (x.1 ≤ y.1)))

/-- Sum of the amounts of all coins of denom `d`. -/
def total : NativeBalance → String → Nat
  | [], _ => 0
  | (d', a) :: rest, d => (if d' = d then a else 0) + total rest d

/-- Σ over a coin list of the amounts of denom `d` (a `BankMsg::Send.amount`). -/
abbrev coinsTotal (cs : List Coin) (d : String) : Nat := total cs d

def denoms (b : NativeBalance) : List String := b.map (·.1)

/-- No denom occurs twice. -/
def UniqueDenoms (b : NativeBalance) : Prop := (denoms b).Nodup

/-! ### lemmas -/

@[simp] theorem total_nil (d : String) : total [] d = 0 := rfl

theorem total_cons (c : Coin) (b : NativeBalance) (d : String) :
    total (c :: b) d = (if c.1 = d then c.2 else 0) + total b d := by
  obtain ⟨d', a⟩ := c; rfl

theorem find?_le_total {b : NativeBalance} {d : String} {a : Nat} (h : find? b d = some a) : a ≤ total b d := by
  fun_induction find? b d <;> grind [total]

theorem find?_none_total {b : NativeBalance} {d : String} (h : find? b d = none) : total b d = 0 := by
  fun_induction find? b d <;> grind [total]

theorem find?_none_iff {b : NativeBalance} {d : String} : find? b d = none ↔ d ∉ denoms b := by
  fun_induction find? b d <;> grind [denoms]

theorem total_setFirst {b : NativeBalance} {d : String} {a v : Nat} (h : find? b d = some a) (d2 : String) :
    total (setFirst b d v) d2 + (if d = d2 then a else 0) = total b d2 + (if d = d2 then v else 0) := by
  fun_induction setFirst b d v <;> grind [total, find?]

theorem total_removeFirst {b : NativeBalance} {d : String} {a : Nat} (h : find? b d = some a) (d2 : String) :
    total (removeFirst b d) d2 + (if d = d2 then a else 0) = total b d2 := by
  fun_induction removeFirst b d <;> grind [total, find?]

theorem total_insertPos (b : NativeBalance) (c : Coin) (d2 : String) :
    total (insertPos b c) d2 = total b d2 + (if c.1 = d2 then c.2 else 0) := by
  fun_induction insertPos b c <;> grind [total]

/-- `add` raises the total of the coin's denom by exactly its amount and touches no other denom. -/
theorem total_add {b b' : NativeBalance} {c : Coin} (h : add b c = .ok b') (d : String) :
    total b' d = total b d + (if c.1 = d then c.2 else 0) := by
  unfold add at h
  split at h
  · rename_i held hf
    simp at h
    obtain ⟨_, rfl⟩ := h
    have := total_setFirst (v := held + c.2) hf d
    split <;> simp_all <;> omega
  · simp at h; subst h; exact total_insertPos b c d

/-- `subCoin` succeeds only if the first coin of the denom covers the amount; the total of that
denom drops by exactly the amount, other denoms are untouched. -/
theorem total_subCoin {b b' : NativeBalance} {c : Coin} (h : subCoin b c = .ok b') (d : String) :
    total b' d + (if c.1 = d then c.2 else 0) = total b d := by
  unfold subCoin at h
  split at h
  · simp at h
  · rename_i held hf
    split at h
    · split at h
      · simp at h; subst h
        have := total_removeFirst hf d
        split <;> simp_all <;> omega
      · simp at h; subst h
        have := total_setFirst (v := held - c.2) hf d
        split <;> simp_all <;> omega
    · simp at h

theorem subCoin_le {b b' : NativeBalance} {c : Coin} (h : subCoin b c = .ok b') : c.2 ≤ total b c.1 := by
  have := total_subCoin h c.1
  simp at this; omega

/-- `subCoins`: every denom's total drops by exactly the Σ of the subtracted coins of that denom. -/
theorem total_subCoins {b b' : NativeBalance} {cs : List Coin} (h : subCoins b cs = .ok b') (d : String) :
    total b' d + coinsTotal cs d = total b d := by
  induction cs generalizing b with
  | nil => simp [subCoins] at h; subst h; simp
  | cons c rest ih =>
    simp [subCoins] at h
    obtain ⟨b1, h1, h2⟩ := h
    have e1 := total_subCoin h1 d
    have e2 := ih h2
    rw [coinsTotal, total_cons]
    simp only [coinsTotal] at e2
    omega

/-- `sub_saturating` never raises any total, lowers the coin's denom by at most the amount and
leaves the other denoms alone. -/
theorem total_subSaturating {b b' : NativeBalance} {c : Coin} (h : subSaturating b c = .ok b') (d : String) :
    total b' d ≤ total b d ∧ total b d ≤ total b' d + (if c.1 = d then c.2 else 0) := by
  unfold subSaturating at h
  split at h
  · simp at h
  · rename_i held hf
    split at h
    · simp at h; subst h
      have := total_removeFirst hf d
      split <;> simp_all <;> omega
    · simp at h; subst h
      have := total_setFirst (v := held - c.2) hf d
      split <;> simp_all <;> omega

/-! ### shape invariant: unique denoms -/

theorem denoms_setFirst (b : NativeBalance) (d : String) (v : Nat) : denoms (setFirst b d v) = denoms b := by
  fun_induction setFirst b d v <;> grind [denoms]

theorem mem_denoms_removeFirst {b : NativeBalance} {d x : String} (h : x ∈ denoms (removeFirst b d)) : x ∈ denoms b := by
  fun_induction removeFirst b d <;> grind [denoms]

theorem unique_removeFirst {b : NativeBalance} {d : String} (h : UniqueDenoms b) : UniqueDenoms (removeFirst b d) := by
  unfold UniqueDenoms at *
  fun_induction removeFirst b d
  · simp [denoms]
  · simp [denoms] at h ⊢; exact h.2
  · rename_i d' a rest hne ih
    simp only [denoms, List.map_cons, List.nodup_cons] at h ⊢
    exact ⟨fun hm => h.1 (mem_denoms_removeFirst hm), ih h.2⟩

theorem mem_denoms_insertPos {b : NativeBalance} {c : Coin} {x : String} :
    x ∈ denoms (insertPos b c) ↔ (x = c.1 ∨ x ∈ denoms b) := by
  fun_induction insertPos b c <;> grind [denoms]

theorem unique_insertPos {b : NativeBalance} {c : Coin} (h : UniqueDenoms b) (hn : c.1 ∉ denoms b) :
    UniqueDenoms (insertPos b c) := by
  unfold UniqueDenoms at *
  fun_induction insertPos b c
  · simp [denoms]
  · simp only [denoms, List.map_cons, List.nodup_cons] at h hn ⊢
    exact ⟨hn, h⟩
  · rename_i d' a rest hle ih
    simp only [denoms, List.map_cons, List.nodup_cons, List.mem_cons, not_or] at h hn ⊢
    refine ⟨?_, ih h.2 hn.2⟩
    intro hm
    rcases mem_denoms_insertPos.mp hm with e | e
    · exact hn.1 e.symm
    · exact h.1 e

theorem unique_add {b b' : NativeBalance} {c : Coin} (hu : UniqueDenoms b) (h : add b c = .ok b') : UniqueDenoms b' := by
  unfold add at h
  split at h
  · simp at h; obtain ⟨_, rfl⟩ := h
    unfold UniqueDenoms; rw [denoms_setFirst]; exact hu
  · rename_i hf
    simp at h; subst h
    exact unique_insertPos hu (find?_none_iff.mp hf)

theorem unique_subCoin {b b' : NativeBalance} {c : Coin} (hu : UniqueDenoms b) (h : subCoin b c = .ok b') : UniqueDenoms b' := by
  unfold subCoin at h
  split at h
  · simp at h
  · split at h
    · split at h
      · simp at h; subst h; exact unique_removeFirst hu
      · simp at h; subst h; unfold UniqueDenoms; rw [denoms_setFirst]; exact hu
    · simp at h

theorem unique_subCoins {b b' : NativeBalance} {cs : List Coin} (hu : UniqueDenoms b) (h : subCoins b cs = .ok b') :
    UniqueDenoms b' := by
  induction cs generalizing b with
  | nil => simp [subCoins] at h; subst h; exact hu
  | cons c rest ih =>
    simp [subCoins] at h
    obtain ⟨b1, h1, h2⟩ := h
    exact ih (unique_subCoin hu h1) h2

theorem unique_subSaturating {b b' : NativeBalance} {c : Coin} (hu : UniqueDenoms b) (h : subSaturating b c = .ok b') :
    UniqueDenoms b' := by
  unfold subSaturating at h
  split at h
  · simp at h
  · split at h
    · simp at h; subst h; exact unique_removeFirst hu
    · simp at h; subst h; unfold UniqueDenoms; rw [denoms_setFirst]; exact hu

/-- With unique denoms the total of a denom is the amount of its (only) coin. -/
theorem total_eq_find?_of_unique {b : NativeBalance} (hu : UniqueDenoms b) (d : String) :
    total b d = (find? b d).getD 0 := by
  unfold UniqueDenoms at hu
  induction b with
  | nil => simp [find?]
  | cons c rest ih =>
    obtain ⟨d', a⟩ := c
    simp only [denoms, List.map_cons, List.nodup_cons] at hu
    by_cases e : d' = d
    · subst e
      have : find? rest d' = none := find?_none_iff.mpr hu.1
      simp [total, find?, find?_none_total this]
    · simp [total, find?, e, ih hu.2]

end NativeBalance
end CwPlus
