import CwPlus.Base.Num
/-! cw-utils `Expiration`, `Duration` (transcribed from cw-utils 2.0.0 `expiration.rs`). -/
namespace CwPlus

structure Block where
  height : Nat
  time : Nat        -- nanoseconds
  deriving Repr, DecidableEq, Inhabited

inductive Expiration where
  | atHeight (h : Nat)
  | atTime (t : Nat)   -- nanoseconds
  | never
  deriving Repr, DecidableEq, Inhabited

/-- `Expiration::is_expired`: `block.height >= height`, `block.time >= time`, never. -/
def Expiration.isExpired (e : Expiration) (b : Block) : Bool :=
  match e with
  | .atHeight h => decide (h ≤ b.height)
  | .atTime t => decide (t ≤ b.time)
  | .never => false

inductive Duration where
  | height (n : Nat)
  | time (secs : Nat)
  deriving Repr, DecidableEq, Inhabited

/-- `Duration::after`. -/
def Duration.after (d : Duration) (b : Block) : Expiration :=
  match d with
  | .height n => .atHeight (b.height + n)
  | .time s => .atTime (b.time + s * 1000000000)

/-- `PartialOrd for Expiration` (cw-utils): heights compare with heights, times with
times, `Never` is greater than everything else and equal to itself, a height and a
time are incomparable.  `cmp? a b = some o` with `o` the `Ordering` of `a` vs `b`. -/
def Expiration.cmp? (a b : Expiration) : Option Ordering :=
  match a, b with
  | .atHeight x, .atHeight y => some (compare x y)
  | .atTime x, .atTime y => some (compare x y)
  | .never, .never => some .eq
  | .never, _ => some .gt
  | _, .never => some .lt
  | _, _ => none

def Expiration.render : Expiration → String
  | .atHeight h => s!"h{h}"
  | .atTime t => s!"t{t}"
  | .never => "never"

def Duration.render : Duration → String
  | .height h => s!"h{h}"
  | .time t => s!"t{t}"

end CwPlus
