/-
Bounded integers of the Rust code are modelled as `Nat` plus the range checks
the code performs (`checked_*`, panicking `+`/`-`, `as u64`).
No imports: this file is linked into the `driver` executable.
-/
namespace CwPlus

abbrev Addr := String

def U128_MAX : Nat := 340282366920938463463374607431768211455
def U64_MAX : Nat := 18446744073709551615
def U32_MAX : Nat := 4294967295

theorem U128_MAX_eq : U128_MAX = 2^128 - 1 := by decide
theorem U64_MAX_eq : U64_MAX = 2^64 - 1 := by decide

/-- Result of a contract call.  The string is an error tag used only for
coverage statistics; the correspondence check compares `ok` vs `error`. -/
abbrev Res (α : Type) := Except String α

/-- `Uint128 + Uint128` (panics on overflow) and `checked_add` (errors): both
abort the transaction. -/
def addU128 (a b : Nat) : Res Nat :=
  if a + b ≤ U128_MAX then .ok (a + b) else .error "overflow.u128"

/-- `Uint128::checked_sub`. -/
def subU128 (a b : Nat) : Res Nat :=
  if b ≤ a then .ok (a - b) else .error "underflow.u128"

/-- `u64 + u64` with `overflow-checks = true`. -/
def addU64 (a b : Nat) : Res Nat :=
  if a + b ≤ U64_MAX then .ok (a + b) else .error "overflow.u64"

def subU64 (a b : Nat) : Res Nat :=
  if b ≤ a then .ok (a - b) else .error "underflow.u64"

/-- `x as u64` on a `u128`. -/
def castU64 (n : Nat) : Nat := n % 18446744073709551616

def Res.isOk {α} : Res α → Bool
  | .ok _ => true
  | .error _ => false

def Res.tag {α} : Res α → String
  | .ok _ => "ok"
  | .error e => e

@[simp] theorem addU128_ok {a b c : Nat} : addU128 a b = .ok c ↔ (a + b ≤ U128_MAX ∧ c = a + b) := by
  unfold addU128; split <;> simp_all <;> omega

@[simp] theorem subU128_ok {a b c : Nat} : subU128 a b = .ok c ↔ (b ≤ a ∧ c = a - b) := by
  unfold subU128; split <;> simp_all <;> omega

@[simp] theorem addU64_ok {a b c : Nat} : addU64 a b = .ok c ↔ (a + b ≤ U64_MAX ∧ c = a + b) := by
  unfold addU64; split <;> simp_all <;> omega

@[simp] theorem subU64_ok {a b c : Nat} : subU64 a b = .ok c ↔ (b ≤ a ∧ c = a - b) := by
  unfold subU64; split <;> simp_all <;> omega

/-- A guard: `check c tag` fails with `tag` unless `c` holds. -/
def check (c : Bool) (tag : String) : Res Unit := if c then .ok () else .error tag

@[simp] theorem check_ok {c : Bool} {tag : String} {u : Unit} : check c tag = .ok u ↔ c = true := by
  unfold check; split <;> simp_all

@[simp] theorem Res.bind_ok {α β : Type} (x : Res α) (f : α → Res β) (b : β) :
    (x >>= f) = Except.ok b ↔ ∃ a, x = Except.ok a ∧ f a = Except.ok b := by
  cases x <;> simp [bind, Except.bind]

@[simp high] theorem check_bind_ok {α : Type} {c : Bool} {tag : String} (f : Unit → Res α) (b : α) :
    (check c tag >>= f) = Except.ok b ↔ (c = true ∧ f () = Except.ok b) := by
  unfold check; split <;> simp_all [bind, Except.bind]

@[simp high] theorem addU128_bind_ok {α : Type} {a b : Nat} (f : Nat → Res α) (r : α) :
    (addU128 a b >>= f) = Except.ok r ↔ (a + b ≤ U128_MAX ∧ f (a + b) = Except.ok r) := by
  unfold addU128; split <;> simp_all [bind, Except.bind] <;> omega

@[simp high] theorem subU128_bind_ok {α : Type} {a b : Nat} (f : Nat → Res α) (r : α) :
    (subU128 a b >>= f) = Except.ok r ↔ (b ≤ a ∧ f (a - b) = Except.ok r) := by
  unfold subU128; split <;> simp_all [bind, Except.bind] <;> omega

@[simp high] theorem addU64_bind_ok {α : Type} {a b : Nat} (f : Nat → Res α) (r : α) :
    (addU64 a b >>= f) = Except.ok r ↔ (a + b ≤ U64_MAX ∧ f (a + b) = Except.ok r) := by
  unfold addU64; split <;> simp_all [bind, Except.bind] <;> omega

@[simp high] theorem subU64_bind_ok {α : Type} {a b : Nat} (f : Nat → Res α) (r : α) :
    (subU64 a b >>= f) = Except.ok r ↔ (b ≤ a ∧ f (a - b) = Except.ok r) := by
  unfold subU64; split <;> simp_all [bind, Except.bind] <;> omega

@[simp high] theorem addU128_map_ok {α : Type} {a b : Nat} (f : Nat → α) (r : α) :
    (f <$> addU128 a b) = Except.ok r ↔ (a + b ≤ U128_MAX ∧ f (a + b) = r) := by
  unfold addU128; split <;> simp_all [Functor.map, Except.map] <;> omega

@[simp high] theorem subU128_map_ok {α : Type} {a b : Nat} (f : Nat → α) (r : α) :
    (f <$> subU128 a b) = Except.ok r ↔ (b ≤ a ∧ f (a - b) = r) := by
  unfold subU128; split <;> simp_all [Functor.map, Except.map] <;> omega

@[simp high] theorem check_map_ok {α : Type} {c : Bool} {tag : String} (f : Unit → α) (b : α) :
    (f <$> check c tag) = Except.ok b ↔ (c = true ∧ f () = b) := by
  unfold check; split <;> simp_all [Functor.map, Except.map]

@[simp] theorem Res.map_ok {α β : Type} (x : Res α) (f : α → β) (b : β) :
    (f <$> x) = Except.ok b ↔ ∃ a, x = Except.ok a ∧ f a = b := by
  cases x <;> simp [Functor.map, Except.map]

@[simp] theorem Res.pure_ok {α : Type} (a b : α) : (pure a : Res α) = Except.ok b ↔ a = b := by
  simp [pure, Except.pure]

@[simp] theorem Res.error_ne_ok {α : Type} (e : String) (b : α) : (Except.error e : Res α) ≠ Except.ok b := by
  intro h; cases h

end CwPlus
