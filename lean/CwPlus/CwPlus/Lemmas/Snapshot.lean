import CwPlus.Base.Snapshot
/-!
# Lemmas about the snapshot model (`Base/Snapshot.lean`)

* characterisation of the search `firstGE` ("the logged entry with the least height `≥ h`");
* one write at a height `hw` that is at least every logged height is invisible to every query at a height
  `h ≤ hw` (`Cell.atHeight_write_le`) and keeps the log bounded by `hw` (`Cell.logLe_write`); a query above
  every logged height returns the current value (`Cell.atHeight_of_logLt`);
* the generic theorem for a list of writes with non-decreasing heights, for cells (`Cell.atHeight_writes`)
  and for maps (`SnapMap.atHeight_writes`), and its block form (`SnapMap.SameBlock`): the form used for
  contracts, whose every call performs a list of writes at the height of its block.

Core only (no Mathlib).
-/
namespace CwPlus

/-- Induction over a list from its end (histories grow at the end). -/
theorem List.rev_induction {α : Type} {P : List α → Prop} (nil : P [])
    (snoc : ∀ (l : List α) (a : α), P l → P (l ++ [a])) : ∀ l, P l := by
  intro l
  have : ∀ r : List α, P r.reverse := by
    intro r
    induction r with
    | nil => exact nil
    | cons a r ih => simpa using snoc _ a ih
  simpa using this l.reverse

end CwPlus

namespace CwPlus.Snapshot

variable {κ ν : Type}

/-! ## `firstGE` -/

theorem firstGE_mem {log : Log ν} {h : Nat} {e : Nat × Option ν} (he : firstGE log h = some e) :
    e ∈ log ∧ h ≤ e.1 := by
  induction log generalizing e with
  | nil => simp [firstGE] at he
  | cons x rest ih =>
    unfold firstGE at he
    split at he
    · split at he
      · cases he; simp_all
      · cases he
    · rename_i b hb
      have := ih hb
      split at he
      · cases he; simp_all
      · cases he; simp_all

theorem firstGE_eq_none {log : Log ν} {h : Nat} : firstGE log h = none ↔ ∀ e ∈ log, e.1 < h := by
  induction log with
  | nil => simp [firstGE]
  | cons x rest ih =>
    unfold firstGE
    split
    · rename_i hn
      have := ih.mp hn
      split <;> simp_all <;> omega
    · rename_i b hb
      have hb' := firstGE_mem hb
      constructor
      · intro hc; split at hc <;> cases hc
      · intro hall
        have := hall b (by simp [hb'.1])
        omega

/-- The entry found is the least one among those at or above `h`. -/
theorem firstGE_least {log : Log ν} {h : Nat} {e : Nat × Option ν} (he : firstGE log h = some e) :
    ∀ e' ∈ log, h ≤ e'.1 → e.1 ≤ e'.1 := by
  induction log generalizing e with
  | nil => simp [firstGE] at he
  | cons x rest ih =>
    unfold firstGE at he
    split at he
    · rename_i hn
      have hlt := firstGE_eq_none.mp hn
      split at he
      · cases he
        intro e' he' hge
        rcases List.mem_cons.mp he' with rfl | hm
        · exact Nat.le_refl _
        · have := hlt e' hm; omega
      · cases he
    · rename_i b hb
      have hb' := ih hb
      split at he
      · cases he
        intro e' he' hge
        rcases List.mem_cons.mp he' with rfl | hm
        · exact Nat.le_refl _
        · have := hb' e' hm hge; omega
      · cases he
        intro e' he' hge
        rcases List.mem_cons.mp he' with rfl | hm
        · rename_i hc; simp at hc; have := hc hge; omega
        · exact hb' e' hm hge

/-- A new entry strictly above every logged height does not hide an older match. -/
theorem firstGE_cons_newest_some {log : Log ν} {hw : Nat} {o : Option ν} (hlt : ∀ e ∈ log, e.1 < hw) {h : Nat}
    {b : Nat × Option ν} (hb : firstGE log h = some b) : firstGE ((hw, o) :: log) h = some b := by
  have := hlt b (firstGE_mem hb).1
  have hc : ¬ (h ≤ hw ∧ hw < b.1) := by omega
  simp [firstGE, hb, hc]

/-- … and is found only when nothing older qualifies. -/
theorem firstGE_cons_newest_none {log : Log ν} {hw : Nat} {o : Option ν} {h : Nat}
    (hn : firstGE log h = none) : firstGE ((hw, o) :: log) h = if h ≤ hw then some (hw, o) else none := by
  simp [firstGE, hn]

theorem logHas_iff {log : Log ν} {h : Nat} : logHas log h = true ↔ ∃ e ∈ log, e.1 = h := by
  simp [logHas]

/-! ## Cells -/

namespace Cell

/-- Every logged height is at most `b`. -/
def LogLe (c : Cell ν) (b : Nat) : Prop := ∀ e ∈ c.log, e.1 ≤ b

theorem LogLe.mono {c : Cell ν} {b b' : Nat} (h : c.LogLe b) (hb : b ≤ b') : c.LogLe b' :=
  fun e he => Nat.le_trans (h e he) hb

theorem logLe_empty (b : Nat) : (Cell.empty : Cell ν).LogLe b := by
  intro e he; simp [Cell.empty] at he

@[simp] theorem write_cur (c : Cell ν) (h : Nat) (v : Option ν) : (c.write h v).cur = v := rfl

/-- A write at `hw` keeps every bound `B ≥ hw`. -/
theorem logLe_write {c : Cell ν} {B hw : Nat} {v : Option ν} (hc : c.LogLe B) (hB : hw ≤ B) :
    (c.write hw v).LogLe B := by
  intro e he
  simp only [write] at he
  split at he
  · exact hc e he
  · rcases List.mem_cons.mp he with rfl | hm
    · exact hB
    · exact hc e hm

/-- A query above every logged height returns the current value. -/
theorem atHeight_of_logLt {c : Cell ν} {h : Nat} (hlt : ∀ e ∈ c.log, e.1 < h) : c.atHeight h = c.cur := by
  simp [atHeight, firstGE_eq_none.mpr hlt]

theorem atHeight_of_logLe {c : Cell ν} {b h : Nat} (hc : c.LogLe b) (hb : b < h) : c.atHeight h = c.cur :=
  atHeight_of_logLt (fun e he => Nat.lt_of_le_of_lt (hc e he) hb)

/-- **First change in a block wins, later blocks are invisible**: a write at a height `hw` that is at least
every logged height does not change the answer of any query at a height `h ≤ hw`. -/
theorem atHeight_write_le {c : Cell ν} {hw h : Nat} {v : Option ν} (hc : c.LogLe hw) (hh : h ≤ hw) :
    (c.write hw v).atHeight h = c.atHeight h := by
  by_cases hhas : logHas c.log hw = true
  · -- the block already has its entry: the log is unchanged and the search succeeds
    obtain ⟨e, hem, heq⟩ := logHas_iff.mp hhas
    have hne : firstGE c.log h ≠ none := by
      intro hn; have := firstGE_eq_none.mp hn e hem; omega
    simp only [write, atHeight, hhas, if_true]
    cases hf : firstGE c.log h with
    | none => exact absurd hf hne
    | some b => rfl
  · have hlt : ∀ e ∈ c.log, e.1 < hw := by
      intro e he
      have h1 := hc e he
      have h2 : e.1 ≠ hw := fun heq => hhas (logHas_iff.mpr ⟨e, he, heq⟩)
      omega
    simp only [write, atHeight, hhas]
    cases hf : firstGE c.log h with
    | none => simp [firstGE_cons_newest_none hf, hh]
    | some b => simp [firstGE_cons_newest_some hlt hf]

/-- A list of writes `(height, new)`. -/
def writes (c : Cell ν) (ws : List (Nat × Option ν)) : Cell ν := ws.foldl (fun c w => c.write w.1 w.2) c

@[simp] theorem writes_nil (c : Cell ν) : c.writes [] = c := rfl
@[simp] theorem writes_cons (c : Cell ν) (w : Nat × Option ν) (ws : List (Nat × Option ν)) :
    c.writes (w :: ws) = (c.write w.1 w.2).writes ws := rfl
theorem writes_append (c : Cell ν) (ws ws' : List (Nat × Option ν)) :
    c.writes (ws ++ ws') = (c.writes ws).writes ws' := by simp [writes, List.foldl_append]

theorem logLe_writes {c : Cell ν} {B : Nat} {ws : List (Nat × Option ν)} (hc : c.LogLe B)
    (hB : ∀ w ∈ ws, w.1 ≤ B) : (c.writes ws).LogLe B := by
  induction ws generalizing c with
  | nil => exact hc
  | cons w ws ih =>
    simp only [writes_cons]
    exact ih (logLe_write hc (hB w (by simp))) (fun w' hw' => hB w' (by simp [hw']))

/-- Non-decreasing heights. -/
def Ordered (ws : List (Nat × Option ν)) : Prop := ws.Pairwise (fun a b => a.1 ≤ b.1)

/-- **Generic snapshot theorem, one slot**: writes at heights `≥ h` are invisible to a query at `h`. -/
theorem atHeight_writes_filter {c : Cell ν} {b : Nat} (ws : List (Nat × Option ν)) (hc : c.LogLe b)
    (hge : ∀ w ∈ ws, b ≤ w.1) (hord : Ordered ws) (h : Nat) :
    (c.writes ws).atHeight h = (c.writes (ws.filter (fun w => w.1 < h))).atHeight h := by
  induction ws using List.rev_induction with
  | nil => rfl
  | snoc ws w ih =>
    have hord' : Ordered ws ∧ ∀ x ∈ ws, x.1 ≤ w.1 := by
      have := List.pairwise_append.mp hord
      exact ⟨this.1, fun x hx => this.2.2 x hx w (by simp)⟩
    have hge' : ∀ x ∈ ws, b ≤ x.1 := fun x hx => hge x (by simp [hx])
    by_cases hw : w.1 < h
    · -- everything is below `h`: nothing is filtered
      have : (ws ++ [w]).filter (fun w => w.1 < h) = ws ++ [w] := by
        apply List.filter_eq_self.mpr
        intro x hx
        rcases List.mem_append.mp hx with hx | hx
        · have := hord'.2 x hx; simp; omega
        · simp at hx; subst hx; simpa using hw
      rw [this]
    · have hf : (ws ++ [w]).filter (fun w => w.1 < h) = ws.filter (fun w => w.1 < h) := by
        simp [List.filter_append, hw]
      rw [hf, writes_append]
      simp only [writes_cons, writes_nil]
      have hb : b ≤ w.1 := hge w (by simp)
      have hle : (c.writes ws).LogLe w.1 := logLe_writes (hc.mono hb) hord'.2
      rw [atHeight_write_le hle (by omega)]
      exact ih hge' hord'.1

/-- **Generic snapshot theorem, one slot**: for writes with non-decreasing heights applied to a slot whose
log is bounded by `b ≤` every write height, a query at a height `h > b` returns the value the slot had after
exactly the writes with height `< h` (before the first write: the initial value; at a write height: the
value before that block's first write; in the future: the current value). -/
theorem atHeight_writes {c : Cell ν} {b : Nat} (ws : List (Nat × Option ν)) (hc : c.LogLe b)
    (hge : ∀ w ∈ ws, b ≤ w.1) (hord : Ordered ws) (h : Nat) (hb : b < h) :
    (c.writes ws).atHeight h = (c.writes (ws.filter (fun w => w.1 < h))).cur := by
  rw [atHeight_writes_filter ws hc hge hord h]
  apply atHeight_of_logLt
  intro e he
  have : (c.writes (ws.filter (fun w => w.1 < h))).LogLe (h - 1) := by
    apply logLe_writes (hc.mono (by omega))
    intro w hw
    have := (List.mem_filter.mp hw).2
    simp at this; omega
  have := this e he
  omega

/-- At or below the bound of the initial log the writes are invisible altogether. -/
theorem atHeight_writes_le {c : Cell ν} {b : Nat} (ws : List (Nat × Option ν)) (hc : c.LogLe b)
    (hge : ∀ w ∈ ws, b ≤ w.1) (hord : Ordered ws) (h : Nat) (hb : h ≤ b) :
    (c.writes ws).atHeight h = c.atHeight h := by
  rw [atHeight_writes_filter ws hc hge hord h]
  have : ws.filter (fun w => w.1 < h) = [] := by
    apply List.filter_eq_nil_iff.mpr
    intro w hw
    have := hge w hw
    simp; omega
  rw [this]; rfl

end Cell

/-! ## Maps -/

namespace SnapMap
variable [DecidableEq κ]
set_option linter.unusedSectionVars false

@[simp] theorem cell_cur (m : SnapMap κ ν) (k : κ) : (m.cell k).cur = m.get? k := rfl

theorem atHeight_eq (m : SnapMap κ ν) (k : κ) (h : Nat) : m.atHeight k h = (m.cell k).atHeight h := rfl

/-- Every map operation is the cell operation on that key and leaves the other keys alone. -/
theorem cell_write (m : SnapMap κ ν) (k' k : κ) (hw : Nat) (v : Option ν) :
    (m.write k' hw v).cell k = if k' = k then (m.cell k).write hw v else m.cell k := by
  by_cases hk : k' = k
  · subst hk
    have hcur : (m.write k' hw v).cur.get? k' = v := by cases v <;> simp [write]
    have hlog : (m.write k' hw v).logOf k' =
        if logHas (m.logOf k') hw then m.logOf k' else (hw, m.cur.get? k') :: m.logOf k' := by
      by_cases hl : logHas (m.logOf k') hw = true
      · simp only [write, hl, if_true]; rfl
      · simp only [write, hl]; simp [logOf]
    simp only [cell, Cell.write, if_true, hcur, hlog]
    rfl
  · have hcur : (m.write k' hw v).cur.get? k = m.cur.get? k := by
      cases v <;> simp [write, AMap.get?_set_ne, AMap.get?_erase_ne, hk]
    have hlog : (m.write k' hw v).logOf k = m.logOf k := by
      by_cases hl : logHas (m.logOf k') hw = true
      · simp [write, logOf] at *; simp [hl]
      · simp [write, logOf] at *; simp [hl, AMap.get?_set_ne, hk]
    simp [cell, hcur, hlog, hk]

@[simp] theorem get?_write (m : SnapMap κ ν) (k' k : κ) (hw : Nat) (v : Option ν) :
    (m.write k' hw v).get? k = if k' = k then v else m.get? k := by
  have := congrArg Cell.cur (cell_write m k' k hw v)
  simp only [cell_cur] at this
  rw [this]; split <;> simp

/-- Every logged height of every key is at most `b`. -/
def LogLe (m : SnapMap κ ν) (b : Nat) : Prop := ∀ k, (m.cell k).LogLe b

theorem LogLe.mono {m : SnapMap κ ν} {b b' : Nat} (h : m.LogLe b) (hb : b ≤ b') : m.LogLe b' :=
  fun k => (h k).mono hb

theorem logLe_empty (b : Nat) : (SnapMap.empty : SnapMap κ ν).LogLe b := by
  intro k e he; simp [SnapMap.empty, cell, logOf] at he

theorem logLe_ofMap (m0 : AMap κ ν) (b : Nat) : (SnapMap.ofMap m0).LogLe b := by
  intro k e he; simp [SnapMap.ofMap, cell, logOf] at he

theorem logLe_write {m : SnapMap κ ν} {B hw : Nat} {k : κ} {v : Option ν} (hm : m.LogLe B) (hB : hw ≤ B) :
    (m.write k hw v).LogLe B := by
  intro k2
  rw [cell_write]
  split
  · exact Cell.logLe_write (hm k2) hB
  · exact hm k2

/-- One map write: key, height, new value (`none` = remove). -/
abbrev MWrite (κ ν : Type) := κ × Nat × Option ν

def writes (m : SnapMap κ ν) (ws : List (MWrite κ ν)) : SnapMap κ ν :=
  ws.foldl (fun m w => m.write w.1 w.2.1 w.2.2) m

@[simp] theorem writes_nil (m : SnapMap κ ν) : m.writes [] = m := rfl
@[simp] theorem writes_cons (m : SnapMap κ ν) (w : MWrite κ ν) (ws : List (MWrite κ ν)) :
    m.writes (w :: ws) = (m.write w.1 w.2.1 w.2.2).writes ws := rfl
theorem writes_append (m : SnapMap κ ν) (ws ws' : List (MWrite κ ν)) :
    m.writes (ws ++ ws') = (m.writes ws).writes ws' := by simp [writes, List.foldl_append]

/-- The writes of a list that concern key `k`, as cell writes. -/
def writesOf (ws : List (MWrite κ ν)) (k : κ) : List (Nat × Option ν) :=
  (ws.filter (fun w => w.1 = k)).map (·.2)

theorem cell_writes (m : SnapMap κ ν) (ws : List (MWrite κ ν)) (k : κ) :
    (m.writes ws).cell k = (m.cell k).writes (writesOf ws k) := by
  induction ws generalizing m with
  | nil => rfl
  | cons w ws ih =>
    simp only [writes_cons, ih, cell_write, writesOf]
    by_cases hk : w.1 = k
    · simp [hk]
    · simp [hk]

def Ordered (ws : List (MWrite κ ν)) : Prop := ws.Pairwise (fun a b => a.2.1 ≤ b.2.1)

theorem ordered_writesOf {ws : List (MWrite κ ν)} (h : Ordered ws) (k : κ) : Cell.Ordered (writesOf ws k) := by
  unfold writesOf Cell.Ordered
  rw [List.pairwise_map]
  exact List.Pairwise.sublist List.filter_sublist h

theorem writesOf_filter (ws : List (MWrite κ ν)) (k : κ) (h : Nat) :
    writesOf (ws.filter (fun w => w.2.1 < h)) k = (writesOf ws k).filter (fun w => w.1 < h) := by
  simp only [writesOf, List.filter_map, List.filter_filter]
  congr 1
  apply List.filter_congr
  intro x _
  simp [Bool.and_comm]

theorem mem_writesOf {ws : List (MWrite κ ν)} {k : κ} {x : Nat × Option ν} (hx : x ∈ writesOf ws k) :
    ∃ w ∈ ws, w.2.1 = x.1 := by
  simp only [writesOf, List.mem_map, List.mem_filter] at hx
  obtain ⟨w, ⟨hw, _⟩, rfl⟩ := hx
  exact ⟨w, hw, rfl⟩

theorem logLe_writes {m : SnapMap κ ν} {B : Nat} {ws : List (MWrite κ ν)} (hm : m.LogLe B)
    (hB : ∀ w ∈ ws, w.2.1 ≤ B) : (m.writes ws).LogLe B := by
  intro k
  rw [cell_writes]
  apply Cell.logLe_writes (hm k)
  intro x hx
  obtain ⟨w, hw, he⟩ := mem_writesOf hx
  have := hB w hw; omega

/-- **Generic snapshot theorem** (maps; "unaffected by any change made in block `h` or later"): for every
list of writes with non-decreasing heights, every key and every height, the writes at heights `≥ h` are
invisible to `atHeight k h`. -/
theorem atHeight_writes_filter {m : SnapMap κ ν} {b : Nat} (ws : List (MWrite κ ν)) (hm : m.LogLe b)
    (hge : ∀ w ∈ ws, b ≤ w.2.1) (hord : Ordered ws) (k : κ) (h : Nat) :
    (m.writes ws).atHeight k h = (m.writes (ws.filter (fun w => w.2.1 < h))).atHeight k h := by
  simp only [atHeight_eq, cell_writes, writesOf_filter]
  apply Cell.atHeight_writes_filter _ (hm k) _ (ordered_writesOf hord k)
  intro x hx
  obtain ⟨w, hw, he⟩ := mem_writesOf hx
  have := hge w hw; omega

/-- **Generic snapshot theorem** (maps): `atHeight k h` after all the writes is the current value of `k`
after exactly the writes with height `< h`. -/
theorem atHeight_writes {m : SnapMap κ ν} {b : Nat} (ws : List (MWrite κ ν)) (hm : m.LogLe b)
    (hge : ∀ w ∈ ws, b ≤ w.2.1) (hord : Ordered ws) (k : κ) (h : Nat) (hb : b < h) :
    (m.writes ws).atHeight k h = (m.writes (ws.filter (fun w => w.2.1 < h))).get? k := by
  simp only [atHeight_eq, cell_writes, writesOf_filter, ← cell_cur]
  apply Cell.atHeight_writes _ (hm k) _ (ordered_writesOf hord k) h hb
  intro x hx
  obtain ⟨w, hw, he⟩ := mem_writesOf hx
  have := hge w hw; omega

theorem atHeight_writes_le {m : SnapMap κ ν} {b : Nat} (ws : List (MWrite κ ν)) (hm : m.LogLe b)
    (hge : ∀ w ∈ ws, b ≤ w.2.1) (hord : Ordered ws) (k : κ) (h : Nat) (hb : h ≤ b) :
    (m.writes ws).atHeight k h = m.atHeight k h := by
  simp only [atHeight_eq, cell_writes]
  apply Cell.atHeight_writes_le _ (hm k) _ (ordered_writesOf hord k) h hb
  intro x hx
  obtain ⟨w, hw, he⟩ := mem_writesOf hx
  have := hge w hw; omega

theorem atHeight_of_logLe {m : SnapMap κ ν} {b h : Nat} (hm : m.LogLe b) (hb : b < h) (k : κ) :
    m.atHeight k h = m.get? k := Cell.atHeight_of_logLe (hm k) hb

/-! ### Block form: what one contract call does to a snapshot map -/

/-- `m'` results from `m` by a list of writes, all at height `hw` (one call in block `hw`). -/
def SameBlock (m m' : SnapMap κ ν) (hw : Nat) : Prop :=
  ∃ ws : List (MWrite κ ν), (∀ w ∈ ws, w.2.1 = hw) ∧ m' = m.writes ws

theorem SameBlock.refl (m : SnapMap κ ν) (hw : Nat) : SameBlock m m hw := ⟨[], by simp, rfl⟩

theorem SameBlock.write (m : SnapMap κ ν) (k : κ) (hw : Nat) (v : Option ν) : SameBlock m (m.write k hw v) hw :=
  ⟨[(k, hw, v)], by simp, rfl⟩

theorem SameBlock.trans {m1 m2 m3 : SnapMap κ ν} {hw : Nat} (h12 : SameBlock m1 m2 hw) (h23 : SameBlock m2 m3 hw) :
    SameBlock m1 m3 hw := by
  obtain ⟨w1, h1, rfl⟩ := h12
  obtain ⟨w2, h2, rfl⟩ := h23
  refine ⟨w1 ++ w2, ?_, (writes_append _ _ _).symm⟩
  intro w hw'
  rcases List.mem_append.mp hw' with h | h
  · exact h1 w h
  · exact h2 w h

theorem ordered_of_same {ws : List (MWrite κ ν)} {hw : Nat} (h : ∀ w ∈ ws, w.2.1 = hw) : Ordered ws := by
  unfold Ordered
  apply List.pairwise_of_forall_mem_list
  intro a ha b hb
  rw [h a ha, h b hb]; exact Nat.le_refl _

/-- Instance of the generic theorem for one block: the writes of block `hw` are invisible at every `h ≤ hw`. -/
theorem SameBlock.atHeight_le {m m' : SnapMap κ ν} {hw : Nat} (hs : SameBlock m m' hw) (hm : m.LogLe hw)
    (k : κ) {h : Nat} (hh : h ≤ hw) : m'.atHeight k h = m.atHeight k h := by
  obtain ⟨ws, hws, rfl⟩ := hs
  rw [atHeight_writes_filter ws hm (fun w hw' => by rw [hws w hw']; exact Nat.le_refl _) (ordered_of_same hws) k h]
  have : ws.filter (fun w => w.2.1 < h) = [] := by
    apply List.filter_eq_nil_iff.mpr
    intro w hw'
    rw [hws w hw']; simp; omega
  rw [this]; rfl

theorem SameBlock.logLe {m m' : SnapMap κ ν} {hw B : Nat} (hs : SameBlock m m' hw) (hm : m.LogLe B) (hB : hw ≤ B) :
    m'.LogLe B := by
  obtain ⟨ws, hws, rfl⟩ := hs
  exact logLe_writes hm (fun w hw' => by rw [hws w hw']; exact hB)

end SnapMap

/-! ### Block form for items -/

namespace Cell

def SameBlock (c c' : Cell ν) (hw : Nat) : Prop :=
  ∃ ws : List (Nat × Option ν), (∀ w ∈ ws, w.1 = hw) ∧ c' = c.writes ws

theorem SameBlock.refl (c : Cell ν) (hw : Nat) : SameBlock c c hw := ⟨[], by simp, rfl⟩

theorem SameBlock.write (c : Cell ν) (hw : Nat) (v : Option ν) : SameBlock c (c.write hw v) hw :=
  ⟨[(hw, v)], by simp, rfl⟩

theorem SameBlock.atHeight_le {c c' : Cell ν} {hw : Nat} (hs : SameBlock c c' hw) (hc : c.LogLe hw)
    {h : Nat} (hh : h ≤ hw) : c'.atHeight h = c.atHeight h := by
  obtain ⟨ws, hws, rfl⟩ := hs
  have hord : Ordered ws := by
    apply List.pairwise_of_forall_mem_list
    intro a ha b hb
    rw [hws a ha, hws b hb]; exact Nat.le_refl _
  rw [atHeight_writes_filter ws hc (fun w hw' => by rw [hws w hw']; exact Nat.le_refl _) hord h]
  have : ws.filter (fun w => w.1 < h) = [] := by
    apply List.filter_eq_nil_iff.mpr
    intro w hw'
    rw [hws w hw']; simp; omega
  rw [this]; rfl

theorem SameBlock.logLe {c c' : Cell ν} {hw B : Nat} (hs : SameBlock c c' hw) (hc : c.LogLe B) (hB : hw ≤ B) :
    c'.LogLe B := by
  obtain ⟨ws, hws, rfl⟩ := hs
  exact logLe_writes hc (fun w hw' => by rw [hws w hw']; exact hB)

end Cell

end CwPlus.Snapshot
