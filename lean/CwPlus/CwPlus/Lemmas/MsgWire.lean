import CwPlus.Lemmas.Json
import CwPlus.Model.MsgWire
/-!
Lemmas about `Model/MsgWire.lean`: base64 decoding undoes encoding on every byte string, `deserialize_u64` reads
back what `serialize_u64` writes, one iteration of the generic field loop `parseObj`, the element loop of a
sequence.  Used by `Props/MsgWire.lean`.
-/
namespace CwPlus.MsgWire
open CwPlus CwPlus.Json

/-! ## base64 -/

set_option maxRecDepth 100000 in
theorem b64Val_b64Sym : ∀ v, v < 64 → b64Val (b64Sym v) = some v := by decide

set_option maxRecDepth 100000 in
theorem b64Sym_plain : ∀ v, v < 64 → escapeByte (b64Sym v) = [b64Sym v] ∧ b64Sym v < 0x80 := by decide

/-- the symbols of the encoding, without the padding -/
def b64Body : Bytes → Bytes
  | [] => []
  | [a] => [b64Sym (a.toNat / 4), b64Sym (a.toNat % 4 * 16)]
  | [a, b] => [b64Sym (a.toNat / 4), b64Sym (a.toNat % 4 * 16 + b.toNat / 16), b64Sym (b.toNat % 16 * 4)]
  | a :: b :: c :: r =>
    b64Sym (a.toNat / 4) :: b64Sym (a.toNat % 4 * 16 + b.toNat / 16) :: b64Sym (b.toNat % 16 * 4 + c.toNat / 64) ::
      b64Sym (c.toNat % 64) :: b64Body r

/-- what `validBase64` looks at: the number of symbols modulo 4, the padding, the unused bits of the last symbol -/
def Shape (body pad : Bytes) : Prop :=
  (pad = [] ∧ body.length % 4 = 0) ∨
  (pad = [0x3d, 0x3d] ∧ body.length % 4 = 2 ∧ ∃ v, v < 64 ∧ v % 16 = 0 ∧ body.getLast? = some (b64Sym v)) ∨
  (pad = [0x3d] ∧ body.length % 4 = 3 ∧ ∃ v, v < 64 ∧ v % 4 = 0 ∧ body.getLast? = some (b64Sym v))

theorem b64Body_syms (bs : Bytes) : ∀ x ∈ b64Body bs, ∃ v, v < 64 ∧ x = b64Sym v := by
  fun_induction b64Body bs with
  | case1 => simp
  | case2 a =>
    have := a.toNat_lt
    intro x hx; simp at hx
    rcases hx with rfl | rfl
    · exact ⟨_, by omega, rfl⟩
    · exact ⟨_, by omega, rfl⟩
  | case3 a b =>
    have := a.toNat_lt; have := b.toNat_lt
    intro x hx; simp at hx
    rcases hx with rfl | rfl | rfl
    · exact ⟨_, by omega, rfl⟩
    · exact ⟨_, by omega, rfl⟩
    · exact ⟨_, by omega, rfl⟩
  | case4 a b c r ih =>
    have := a.toNat_lt; have := b.toNat_lt; have := c.toNat_lt
    intro x hx; simp at hx
    rcases hx with rfl | rfl | rfl | rfl | hx
    · exact ⟨_, by omega, rfl⟩
    · exact ⟨_, by omega, rfl⟩
    · exact ⟨_, by omega, rfl⟩
    · exact ⟨_, by omega, rfl⟩
    · exact ih x hx

theorem getLast?_cons_of_some {α : Type} (x : α) (l : List α) (v : α) (h : l.getLast? = some v) :
    (x :: l).getLast? = some v := by
  cases l with
  | nil => simp at h
  | cons y ys => simpa [List.getLast?_cons_cons] using h

theorem b64Enc_shape (bs : Bytes) : ∃ pad, b64Enc bs = b64Body bs ++ pad ∧ Shape (b64Body bs) pad := by
  fun_induction b64Enc bs with
  | case1 => exact ⟨[], by simp [b64Body], Or.inl ⟨rfl, by simp [b64Body]⟩⟩
  | case2 a =>
    have := a.toNat_lt
    exact ⟨[0x3d, 0x3d], by simp [b64Body], Or.inr (Or.inl ⟨rfl, by simp [b64Body],
      a.toNat % 4 * 16, by omega, by omega, by simp [b64Body]⟩)⟩
  | case3 a b =>
    have := b.toNat_lt
    exact ⟨[0x3d], by simp [b64Body], Or.inr (Or.inr ⟨rfl, by simp [b64Body],
      b.toNat % 16 * 4, by omega, by omega, by simp [b64Body]⟩)⟩
  | case4 a b c r ih =>
    obtain ⟨pad, he, hs⟩ := ih
    refine ⟨pad, by simp [b64Body, he], ?_⟩
    rcases hs with ⟨hp, hl⟩ | ⟨hp, hl, v, hv, hm, hg⟩ | ⟨hp, hl, v, hv, hm, hg⟩
    · exact Or.inl ⟨hp, by simp [b64Body]; omega⟩
    · refine Or.inr (Or.inl ⟨hp, by simp [b64Body]; omega, v, hv, hm, ?_⟩)
      simp only [b64Body]
      exact getLast?_cons_of_some _ _ _ (getLast?_cons_of_some _ _ _ (getLast?_cons_of_some _ _ _
        (getLast?_cons_of_some _ _ _ hg)))
    · refine Or.inr (Or.inr ⟨hp, by simp [b64Body]; omega, v, hv, hm, ?_⟩)
      simp only [b64Body]
      exact getLast?_cons_of_some _ _ _ (getLast?_cons_of_some _ _ _ (getLast?_cons_of_some _ _ _
        (getLast?_cons_of_some _ _ _ hg)))

theorem takeWhile_dropWhile_stop {α : Type} (p : α → Bool) (l pad : List α) (hl : ∀ x ∈ l, p x = true)
    (hp : ∀ x ∈ pad.head?, p x = false) : (l ++ pad).takeWhile p = l ∧ (l ++ pad).dropWhile p = pad := by
  induction l with
  | nil =>
    cases pad with
    | nil => simp
    | cons y ys => have := hp y (by simp); simp [this]
  | cons x xs ih =>
    have hx := hl x (by simp)
    have := ih (fun y hy => hl y (by simp [hy]))
    simp [hx, this]

theorem b64_syms_of_enc (bs : Bytes) : ∃ pad, b64Enc bs = b64Body bs ++ pad ∧ Shape (b64Body bs) pad ∧
    (b64Enc bs).takeWhile (fun b => (b64Val b).isSome) = b64Body bs ∧
    (b64Enc bs).dropWhile (fun b => (b64Val b).isSome) = pad := by
  obtain ⟨pad, he, hs⟩ := b64Enc_shape bs
  have hsym : ∀ x ∈ b64Body bs, (b64Val x).isSome = true := by
    intro x hx
    obtain ⟨v, hv, rfl⟩ := b64Body_syms bs x hx
    rw [b64Val_b64Sym v hv]; rfl
  have hpad : ∀ x ∈ pad.head?, (b64Val x).isSome = false := by
    rcases hs with ⟨hp, _⟩ | ⟨hp, _⟩ | ⟨hp, _⟩ <;> subst hp <;> simp <;> decide
  have := takeWhile_dropWhile_stop (fun b => (b64Val b).isSome) (b64Body bs) pad hsym hpad
  rw [he]
  exact ⟨pad, rfl, hs, this.1, this.2⟩

theorem validBase64_b64Enc (bs : Bytes) : validBase64 (b64Enc bs) = true := by
  obtain ⟨pad, _, hs, ht, hd⟩ := b64_syms_of_enc bs
  unfold validBase64
  simp only [ht, hd]
  rcases hs with ⟨hp, hl⟩ | ⟨hp, hl, v, hv, hm, hg⟩ | ⟨hp, hl, v, hv, hm, hg⟩
  · subst hp; simp [hl]
  · subst hp; simp [hl, hg, b64Val_b64Sym v hv, hm]
  · subst hp; simp [hl, hg, b64Val_b64Sym v hv, hm]

theorem toUInt8_toNat_of_eq (a : UInt8) (n : Nat) (h : n = a.toNat) : n.toUInt8 = a := by
  subst h; simp

theorem b64DecSyms_b64Body (bs : Bytes) : b64DecSyms (b64Body bs) = bs := by
  fun_induction b64Body bs with
  | case1 => simp [b64DecSyms]
  | case2 a =>
    have := a.toNat_lt
    simp only [b64DecSyms]
    rw [b64Val_b64Sym _ (by omega), b64Val_b64Sym _ (by omega)]
    simp only [Option.getD_some]
    rw [toUInt8_toNat_of_eq a _ (by omega)]
  | case3 a b =>
    have := a.toNat_lt; have := b.toNat_lt
    simp only [b64DecSyms]
    rw [b64Val_b64Sym _ (by omega), b64Val_b64Sym _ (by omega), b64Val_b64Sym _ (by omega)]
    simp only [Option.getD_some]
    rw [toUInt8_toNat_of_eq a _ (by omega), toUInt8_toNat_of_eq b _ (by omega)]
  | case4 a b c r ih =>
    have := a.toNat_lt; have := b.toNat_lt; have := c.toNat_lt
    simp only [b64DecSyms]
    rw [b64Val_b64Sym _ (by omega), b64Val_b64Sym _ (by omega), b64Val_b64Sym _ (by omega), b64Val_b64Sym _ (by omega)]
    simp only [Option.getD_some]
    rw [toUInt8_toNat_of_eq a _ (by omega), toUInt8_toNat_of_eq b _ (by omega), toUInt8_toNat_of_eq c _ (by omega), ih]

/-- `Binary::from_base64(binary.to_base64()) = Ok(binary)` for every byte string -/
theorem b64Dec_b64Enc (bs : Bytes) : b64Dec (b64Enc bs) = some bs := by
  obtain ⟨_, _, _, ht, _⟩ := b64_syms_of_enc bs
  simp [b64Dec, validBase64_b64Enc, ht, b64DecSyms_b64Body]

theorem b64Enc_mem (bs : Bytes) : ∀ x ∈ b64Enc bs, escapeByte x = [x] ∧ x < 0x80 := by
  obtain ⟨pad, he, hs⟩ := b64Enc_shape bs
  intro x hx
  rw [he, List.mem_append] at hx
  rcases hx with hx | hx
  · obtain ⟨v, hv, rfl⟩ := b64Body_syms bs x hx
    exact b64Sym_plain v hv
  · have : x = 0x3d := by
      rcases hs with ⟨hp, _⟩ | ⟨hp, _⟩ | ⟨hp, _⟩ <;> subst hp <;> simp at hx <;> simp [hx]
    subst this; decide

theorem escape_id (l : Bytes) (h : ∀ x ∈ l, escapeByte x = [x]) : escape l = l := by
  induction l with
  | nil => simp [escape]
  | cons b r ih =>
    rw [escape_cons, h b (by simp), ih (fun x hx => h x (by simp [hx]))]; rfl

theorem isText_b64Enc (bs : Bytes) : IsText (b64Enc bs) := isText_ascii _ fun b hb => (b64Enc_mem bs b hb).2

/-- a `Binary` is read back, whatever follows the closing quote -/
theorem parseBinaryValue_binaryTok (bs rest : Bytes) : parseBinaryValue (binaryTok bs ++ rest) = .ok (bs, rest) := by
  obtain ⟨s, hs⟩ := isText_b64Enc bs
  have he : escape (strBytes s) = b64Enc bs := by
    rw [hs]; exact escape_id _ fun x hx => (b64Enc_mem bs x hx).1
  have : binaryTok bs = encStr s := by simp [binaryTok, encStr, he]
  simp [parseBinaryValue, this, parseStringValue_encStr, hs, b64Dec_b64Enc]

/-! ## `u64` -/

/-- the step of `digitsVal` -/
def dstep (v : Nat) (d : UInt8) : Nat := 10 * v + (d.toNat - 0x30)

theorem digitsVal_eq (ds : Bytes) : digitsVal ds = ds.foldl dstep 0 := rfl

theorem foldl_dstep_ge (ds : Bytes) : ∀ acc, acc ≤ ds.foldl dstep acc := by
  induction ds with
  | nil => intro acc; simp
  | cons d r ih =>
    intro acc
    simp only [List.foldl_cons]
    have := ih (dstep acc d)
    simp only [dstep] at this ⊢
    omega

theorem digitLoop_digits (ds rest : Bytes) (hrest : ∀ c ∈ rest.head?, isDigit c = false) :
    ∀ acc, (∀ d ∈ ds, isDigit d = true) → ds.foldl dstep acc < 2 ^ 64 →
      digitLoop acc (ds ++ rest) = .ok (ds.foldl dstep acc, rest) := by
  induction ds with
  | nil =>
    intro acc _ _
    cases rest with
    | nil => simp [digitLoop]
    | cons c r => have := hrest c (by simp); simp [digitLoop, this]
  | cons d r ih =>
    intro acc hd hlt
    have h1 := hd d (by simp)
    simp only [List.foldl_cons] at hlt ⊢
    have hge := foldl_dstep_ge r (dstep acc d)
    have hlt' : 10 * acc + (d.toNat - 0x30) < 2 ^ 64 := by
      have : dstep acc d < 2 ^ 64 := by omega
      simpa only [dstep] using this
    simp only [List.cons_append, digitLoop, h1, if_true, hlt']
    exact ih (dstep acc d) (fun x hx => hd x (by simp [hx])) hlt

/-- the most significant digit of a number is not `0`, except for the number `0` itself -/
theorem revDigits_reverse_head : ∀ (f n : Nat), n < f →
    ∃ d ds, (revDigits f n).reverse = d :: ds ∧ (d = 0 → n = 0 ∧ ds = []) := by
  intro f
  induction f with
  | zero => intro n h; omega
  | succ f ih =>
    intro n h
    simp only [revDigits]
    split
    · exact ⟨n, [], by simp, fun h0 => ⟨h0, rfl⟩⟩
    · obtain ⟨d, ds, he, h0⟩ := ih (n / 10) (by omega)
      refine ⟨d, ds ++ [n % 10], by simp [he], fun hd => ?_⟩
      have := (h0 hd).1
      omega

set_option maxRecDepth 100000 in
theorem digitByte_facts2 : ∀ d, d < 10 →
    isWs (digitByte d) = false ∧ digitByte d ≠ 0x6e ∧ (d = 0 → digitByte d = 0x30) ∧
    (d ≠ 0 → digitByte d ≠ 0x30 ∧ 0x31 ≤ digitByte d ∧ digitByte d ≤ 0x39) := by
  decide

/-- `deserialize_u64` reads back what `serialize_u64` wrote, when no digit follows -/
theorem parseU64Value_u64Tok (n : Nat) (rest : Bytes) (h : n < 2 ^ 64) (hrest : ∀ c ∈ rest.head?, isDigit c = false) :
    parseU64Value (u64Tok n ++ rest) = .ok (n, rest) := by
  obtain ⟨d, ds, he, h0⟩ := revDigits_reverse_head (n + 1) n (by omega)
  have hlt : ∀ x ∈ d :: ds, x < 10 := by
    intro x hx
    exact revDigits_lt (n + 1) n x (by rw [← List.mem_reverse, he]; exact hx)
  have hd := hlt d (by simp)
  have htok : u64Tok n = digitByte d :: ds.map digitByte := by
    simp [u64Tok, decDigits_eq, he]
  have hval : digitsVal (u64Tok n) = n := digitsVal_decDigits n
  obtain ⟨hws, _, hz, hnz⟩ := digitByte_facts2 d hd
  unfold parseU64Value
  rw [htok, List.cons_append, skipWs_cons _ _ hws]
  by_cases hd0 : d = 0
  · obtain ⟨rfl, rfl⟩ := h0 hd0
    simp [hz hd0]
  · obtain ⟨hn30, hlo, hhi⟩ := hnz hd0
    simp only [if_neg hn30, hlo, hhi, and_self, if_true]
    have hdv : (digitByte d).toNat - 0x30 = d := (digitByte_facts d hd).1
    have hfold : (ds.map digitByte).foldl dstep ((digitByte d).toNat - 0x30) = n := by
      rw [← hval, htok, digitsVal_eq, List.foldl_cons]
      simp [dstep]
    have := digitLoop_digits (ds.map digitByte) rest hrest ((digitByte d).toNat - 0x30)
      (by
        intro x hx
        simp only [List.mem_map] at hx
        obtain ⟨y, hy, rfl⟩ := hx
        exact (digitByte_facts y (hlt y (by simp [hy]))).2.1)
      (by rw [hfold]; exact h)
    rw [this, hfold]

theorem u64Tok_cons (n : Nat) : ∃ b r, u64Tok n = b :: r ∧ isWs b = false ∧ b ≠ 0x6e := by
  obtain ⟨d, ds, he, _⟩ := revDigits_reverse_head (n + 1) n (by omega)
  have hd : d < 10 := revDigits_lt (n + 1) n d (by rw [← List.mem_reverse, he]; simp)
  obtain ⟨hws, hn, _, _⟩ := digitByte_facts2 d hd
  exact ⟨digitByte d, ds.map digitByte, by simp [u64Tok, decDigits_eq, he], hws, hn⟩

/-- the range of a `u64` field -/
def OptU64 : Option Nat → Prop
  | none => True
  | some n => n < 2 ^ 64

theorem parseOptU64Value_optU64Tok (o : Option Nat) (rest : Bytes) (h : OptU64 o)
    (hrest : ∀ c ∈ rest.head?, isDigit c = false) :
    parseOptU64Value (optU64Tok o ++ rest) = .ok (o, rest) := by
  cases o with
  | none => simp [parseOptU64Value, optU64Tok, nullTok, skipWs_cons, isWs, parseIdent]
  | some n =>
    have hp := parseU64Value_u64Tok n rest h hrest
    obtain ⟨b, r, hb, hws, hn⟩ := u64Tok_cons n
    simp only [optU64Tok]
    rw [hb] at hp ⊢
    simp only [List.cons_append] at hp ⊢
    simp only [parseOptU64Value, skipWs_cons _ _ hws, if_neg hn, hp]

/-! ## the generic field loop -/

theorem parseObj_first {α : Type} (fv : α → String → Bytes → Except DecodeErr (α × Bytes)) (f : Nat) (acc acc' : α)
    (k : String) (val rest : Bytes) (hv : fv acc k (val ++ rest) = .ok (acc', rest)) :
    parseObj fv (f + 1) true acc (field (escape (strBytes k)) val ++ rest) = parseObj fv f false acc' rest := by
  simp only [field, List.cons_append, List.append_assoc]
  rw [parseObj, nextKey_first]
  simp only [parseStrTok_encStr, parseColon_colon, hv]

theorem parseObj_next {α : Type} (fv : α → String → Bytes → Except DecodeErr (α × Bytes)) (f : Nat) (acc acc' : α)
    (k : String) (val rest : Bytes) (hv : fv acc k (val ++ rest) = .ok (acc', rest)) :
    parseObj fv (f + 1) false acc (0x2c :: (field (escape (strBytes k)) val ++ rest)) = parseObj fv f false acc' rest := by
  simp only [field, List.cons_append, List.append_assoc]
  rw [parseObj, nextKey_comma]
  simp only [parseStrTok_encStr, parseColon_colon, hv]

theorem parseObj_end {α : Type} (fv : α → String → Bytes → Except DecodeErr (α × Bytes)) (f : Nat) (first : Bool)
    (acc : α) (rest : Bytes) : parseObj fv (f + 1) first acc (0x7d :: rest) = .ok (acc, 0x7d :: rest) := by
  rw [parseObj, nextKey_end]

theorem endMap_close (rest : Bytes) : endMap (0x7d :: rest) = .ok rest := by
  simp [endMap, skipWs_cons, isWs]

theorem keys_escape2 :
    keyReceive = escape (strBytes "receive") ∧ keySender = escape (strBytes "sender") ∧
    keyAmount = escape (strBytes "amount") ∧ keyMsg = escape (strBytes "msg") ∧
    keyMemberChangedHook = escape (strBytes "member_changed_hook") ∧ keyDiffs = escape (strBytes "diffs") ∧
    keyKey = escape (strBytes "key") ∧ keyOld = escape (strBytes "old") ∧ keyNew = escape (strBytes "new") := by
  decide

/-- a JSON string token whose content is the escaped text `k` -/
theorem parseStringValue_key (k : String) (rest : Bytes) :
    parseStringValue (0x22 :: (escape (strBytes k) ++ 0x22 :: rest)) = .ok (k, rest) := by
  simp [parseStringValue, skipWs_cons, isWs, parseStrTok_encStr]

/-- the envelope `{"variant":value}` is read back when the value is -/
theorem decodeNewtypeVariant_encode {α : Type} (variant : String) (value : Bytes → Except DecodeErr (α × Bytes))
    (x : α) (body : Bytes) (hv : value (body ++ [0x7d]) = .ok (x, [0x7d])) :
    decodeNewtypeVariant variant value (0x7b :: (field (escape (strBytes variant)) body ++ [0x7d])) = .ok x := by
  unfold decodeNewtypeVariant
  rw [skipWs_cons _ _ (by decide)]
  simp only [field, List.cons_append, List.append_assoc, if_true, parseStringValue_key, parseColon_colon, hv]
  simp [skipWs, isWs]

theorem keys_escape3 :
    keyTransfer = escape (strBytes "transfer") ∧ keyTransferFrom = escape (strBytes "transfer_from") ∧
    keyRecipient = escape (strBytes "recipient") ∧ keyOwner = escape (strBytes "owner") ∧
    keyAmount = escape (strBytes "amount") := by
  decide

end CwPlus.MsgWire
