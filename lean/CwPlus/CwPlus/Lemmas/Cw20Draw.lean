import CwPlus.Model.Cw20
/-!
# Helper lemmas about the cw20 allowance machinery (`debit`, `credit`, `deductFn`, `deduct`)

Exact characterisations (`… = .ok r ↔ …`) of the building blocks of the six allowance
handlers of `Model/Cw20.lean`, used by `Props/C02.lean`.  Core only.
-/
namespace CwPlus.Cw20
open CwPlus

/-- `debit` succeeds iff the balance covers the amount; it rewrites exactly that entry. -/
theorem debit_ok {b b' : AMap Addr Nat} {a : Addr} {amt : Nat} :
    debit b a amt = .ok b' ↔ amt ≤ (b.get? a).getD 0 ∧ b' = b.set a ((b.get? a).getD 0 - amt) := by
  simp [debit, eq_comm]

/-- `credit` succeeds iff the sum fits `Uint128`; it rewrites exactly that entry. -/
theorem credit_ok {b b' : AMap Addr Nat} {a : Addr} {amt : Nat} :
    credit b a amt = .ok b' ↔
      (b.get? a).getD 0 + amt ≤ U128_MAX ∧ b' = b.set a ((b.get? a).getD 0 + amt) := by
  simp [credit, eq_comm]

/-- Point-wise effect of a successful `debit` on every account. -/
theorem debit_get {b b' : AMap Addr Nat} {a : Addr} {amt : Nat} (h : debit b a amt = .ok b') (x : Addr) :
    (b'.get? x).getD 0 = if x = a then (b.get? a).getD 0 - amt else (b.get? x).getD 0 := by
  obtain ⟨_, rfl⟩ := debit_ok.mp h
  rw [AMap.get?_set]
  by_cases e : a = x
  · subst e; simp
  · have e' : ¬ x = a := fun h => e h.symm
    simp [e, e']

/-- Point-wise effect of a successful `credit` on every account. -/
theorem credit_get {b b' : AMap Addr Nat} {a : Addr} {amt : Nat} (h : credit b a amt = .ok b') (x : Addr) :
    (b'.get? x).getD 0 = if x = a then (b.get? a).getD 0 + amt else (b.get? x).getD 0 := by
  obtain ⟨_, rfl⟩ := credit_ok.mp h
  rw [AMap.get?_set]
  by_cases e : a = x
  · subst e; simp
  · have e' : ¬ x = a := fun h => e h.symm
    simp [e, e']

/-- `debit from` then `credit to` by the same amount: exact balance of every account afterwards.
Covers `from = to` (net zero). -/
theorem move_get {b b1 b2 : AMap Addr Nat} {frm to : Addr} {amt : Nat}
    (h1 : debit b frm amt = .ok b1) (h2 : credit b1 to amt = .ok b2) (x : Addr) :
    amt ≤ (b.get? frm).getD 0 ∧
    (b2.get? x).getD 0 =
      if x = to then (if to = frm then (b.get? frm).getD 0 else (b.get? to).getD 0 + amt)
      else if x = frm then (b.get? frm).getD 0 - amt else (b.get? x).getD 0 := by
  have hle := (debit_ok.mp h1).1
  refine ⟨hle, ?_⟩
  rw [credit_get h2 x, debit_get h1 to]
  by_cases e1 : x = to
  · subst e1
    by_cases e2 : x = frm
    · subst e2; simp; omega
    · simp [e2]
  · simp [e1, debit_get h1 x]

/-- The closure of `deduct_allowance`, characterised exactly. -/
theorem deductFn_ok {blk : Block} {amt : Nat} {cur : Option Allowance} {a' : Allowance} :
    deductFn blk amt cur = .ok a' ↔
      ∃ al, cur = some al ∧ al.expires.isExpired blk = false ∧ amt ≤ al.amount ∧
        a' = ⟨al.amount - amt, al.expires⟩ := by
  unfold deductFn
  split
  · simp
  · rename_i a
    simp only [check_bind_ok, subU128_bind_ok, Res.pure_ok, Bool.not_eq_true', Option.some.injEq]
    constructor
    · rintro ⟨h1, h2, rfl⟩; exact ⟨a, rfl, h1, h2, rfl⟩
    · rintro ⟨al, rfl, h1, h2, rfl⟩; exact ⟨h1, h2, rfl⟩

/-- `deduct_allowance`, characterised exactly: both entries exist, are unexpired and sufficient
(each judged on its own stored value), and both are rewritten with the amount lowered. -/
theorem deduct_ok {s s1 : State} {blk : Block} {o sp : Addr} {amt : Nat} :
    deduct s blk o sp amt = .ok s1 ↔
      ∃ al al2, s.allow.get? (o, sp) = some al ∧ al.expires.isExpired blk = false ∧ amt ≤ al.amount ∧
        s.allowSp.get? (sp, o) = some al2 ∧ al2.expires.isExpired blk = false ∧ amt ≤ al2.amount ∧
        s1 = { s with allow := s.allow.set (o, sp) ⟨al.amount - amt, al.expires⟩,
                      allowSp := s.allowSp.set (sp, o) ⟨al2.amount - amt, al2.expires⟩ } := by
  simp only [deduct, Res.bind_ok, Res.pure_ok, deductFn_ok]
  constructor
  · rintro ⟨a1, ⟨al, h1, h2, h3, rfl⟩, a2, ⟨al2, h4, h5, h6, rfl⟩, rfl⟩
    exact ⟨al, al2, h1, h2, h3, h4, h5, h6, rfl⟩
  · rintro ⟨al, al2, h1, h2, h3, h4, h5, h6, rfl⟩
    exact ⟨_, ⟨al, h1, h2, h3, rfl⟩, _, ⟨al2, h4, h5, h6, rfl⟩, rfl⟩

/-- The closure of `execute_increase_allowance`, characterised exactly. -/
theorem incFn_ok {blk : Block} {amt : Nat} {expires : Option Expiration} {old : Option Allowance}
    {a' : Allowance} :
    incFn blk amt expires old = .ok a' ↔
      (∀ e, expires = some e → e.isExpired blk = false) ∧
      (old.getD Allowance.default).amount + amt ≤ U128_MAX ∧
      a' = ⟨(old.getD Allowance.default).amount + amt, expires.getD (old.getD Allowance.default).expires⟩ := by
  unfold incFn
  cases expires with
  | none => simp; intro _; exact eq_comm
  | some e => simp; intro _ _; exact eq_comm

/-! ## Inversion lemmas: what a successful call of each handler did -/

theorem execTransfer_inv {s s' : State} {snd : Addr} {to : AddrArg} {amt : Nat} {out : List Out}
    (h : execTransfer s snd to amt = .ok (s', out)) :
    to.valid = true ∧ ∃ b1 b2, debit s.balances snd amt = .ok b1 ∧ credit b1 to.text amt = .ok b2 ∧
      s' = { s with balances := b2 } ∧ out = [] := by
  simp [execTransfer] at h
  obtain ⟨hv, b1, h1, b2, h2, rfl, rfl⟩ := h
  exact ⟨hv, b1, b2, h1, h2, rfl, rfl⟩

theorem execSend_inv {s s' : State} {snd : Addr} {c : AddrArg} {amt : Nat} {p : String} {out : List Out}
    (h : execSend s snd c amt p = .ok (s', out)) :
    c.valid = true ∧ ∃ b1 b2, debit s.balances snd amt = .ok b1 ∧ credit b1 c.text amt = .ok b2 ∧
      s' = { s with balances := b2 } ∧ out = [⟨c.text, snd, amt, p⟩] := by
  simp [execSend] at h
  obtain ⟨hv, b1, h1, b2, h2, rfl, rfl⟩ := h
  exact ⟨hv, b1, b2, h1, h2, rfl, rfl⟩

theorem execBurn_inv {s s' : State} {snd : Addr} {amt : Nat} {out : List Out}
    (h : execBurn s snd amt = .ok (s', out)) :
    ∃ b1, debit s.balances snd amt = .ok b1 ∧ amt ≤ s.supply ∧
      s' = { s with balances := b1, supply := s.supply - amt } ∧ out = [] := by
  simp [execBurn] at h
  obtain ⟨b1, h1, hle, rfl, rfl⟩ := h
  exact ⟨b1, h1, hle, rfl, rfl⟩

theorem execMint_inv {s s' : State} {snd : Addr} {to : AddrArg} {amt : Nat} {out : List Out}
    (h : execMint s snd to amt = .ok (s', out)) :
    ∃ b, credit s.balances to.text amt = .ok b ∧ s'.balances = b ∧ s'.allow = s.allow ∧
      s'.allowSp = s.allowSp ∧ out = [] := by
  unfold execMint at h
  split at h
  · simp at h
  · simp at h
    obtain ⟨_, _, _, _, b, h1, rfl, rfl⟩ := h
    exact ⟨b, h1, rfl, rfl, rfl, rfl⟩

theorem execUpdateMinter_inv {s s' : State} {snd : Addr} {new : Option AddrArg} {out : List Out}
    (h : execUpdateMinter s snd new = .ok (s', out)) :
    s'.balances = s.balances ∧ s'.supply = s.supply ∧ s'.allow = s.allow ∧ s'.allowSp = s.allowSp ∧
      out = [] := by
  unfold execUpdateMinter at h
  split at h
  · simp at h
  · split at h
    · simp at h; obtain ⟨_, rfl, rfl⟩ := h; simp
    · simp at h; obtain ⟨_, _, rfl, rfl⟩ := h; simp

theorem execIncreaseAllowance_inv {s s' : State} {blk : Block} {snd : Addr} {sp : AddrArg} {amt : Nat}
    {e : Option Expiration} {out : List Out}
    (h : execIncreaseAllowance s blk snd sp amt e = .ok (s', out)) :
    sp.valid = true ∧ sp.text ≠ snd ∧ (∀ x, e = some x → x.isExpired blk = false) ∧
      ((s.allow.get? (snd, sp.text)).getD Allowance.default).amount + amt ≤ U128_MAX ∧
      ((s.allowSp.get? (sp.text, snd)).getD Allowance.default).amount + amt ≤ U128_MAX ∧
      s' = { s with
        allow := s.allow.set (snd, sp.text)
          ⟨((s.allow.get? (snd, sp.text)).getD Allowance.default).amount + amt,
            e.getD ((s.allow.get? (snd, sp.text)).getD Allowance.default).expires⟩,
        allowSp := s.allowSp.set (sp.text, snd)
          ⟨((s.allowSp.get? (sp.text, snd)).getD Allowance.default).amount + amt,
            e.getD ((s.allowSp.get? (sp.text, snd)).getD Allowance.default).expires⟩ } ∧
      out = [] := by
  simp [execIncreaseAllowance, incFn_ok] at h
  obtain ⟨hv, hne, a1, ⟨he, h1, rfl⟩, a2, ⟨_, h2, rfl⟩, rfl, rfl⟩ := h
  exact ⟨hv, hne, he, h1, h2, rfl, rfl⟩

theorem execDecreaseAllowance_inv {s s' : State} {blk : Block} {snd : Addr} {sp : AddrArg} {amt : Nat}
    {e : Option Expiration} {out : List Out}
    (h : execDecreaseAllowance s blk snd sp amt e = .ok (s', out)) :
    sp.valid = true ∧ sp.text ≠ snd ∧ ∃ old, s.allow.get? (snd, sp.text) = some old ∧ out = [] ∧
      ((amt < old.amount ∧ (∀ x, e = some x → x.isExpired blk = false) ∧
          s' = { s with allow := s.allow.set (snd, sp.text) ⟨old.amount - amt, e.getD old.expires⟩,
                        allowSp := s.allowSp.set (sp.text, snd) ⟨old.amount - amt, e.getD old.expires⟩ }) ∨
       (old.amount ≤ amt ∧
          s' = { s with allow := s.allow.erase (snd, sp.text),
                        allowSp := s.allowSp.erase (sp.text, snd) })) := by
  unfold execDecreaseAllowance at h
  simp at h
  obtain ⟨hv, hne, h⟩ := h
  refine ⟨hv, hne, ?_⟩
  split at h
  · simp at h
  · rename_i old hold
    refine ⟨old, hold, ?_⟩
    split at h
    · rename_i hlt
      cases e with
      | none =>
        simp at h
        obtain ⟨rfl, rfl⟩ := h
        exact ⟨rfl, .inl ⟨hlt, by simp, rfl⟩⟩
      | some x =>
        simp at h
        obtain ⟨hx, rfl, rfl⟩ := h
        exact ⟨rfl, .inl ⟨hlt, by simpa using hx, rfl⟩⟩
    · rename_i hge
      simp at h
      obtain ⟨rfl, rfl⟩ := h
      exact ⟨rfl, .inr ⟨by omega, rfl⟩⟩

theorem execTransferFrom_inv {s s' : State} {blk : Block} {snd : Addr} {o r : AddrArg} {amt : Nat}
    {out : List Out} (h : execTransferFrom s blk snd o r amt = .ok (s', out)) :
    r.valid = true ∧ o.valid = true ∧ ∃ s1 b1 b2, deduct s blk o.text snd amt = .ok s1 ∧
      debit s.balances o.text amt = .ok b1 ∧ credit b1 r.text amt = .ok b2 ∧
      s' = { s1 with balances := b2 } ∧ out = [] := by
  simp [execTransferFrom] at h
  obtain ⟨hr, ho, s1, hd, b1, h1, b2, h2, rfl, rfl⟩ := h
  have hb : s1.balances = s.balances := by
    obtain ⟨_, _, _, _, _, _, _, _, rfl⟩ := deduct_ok.mp hd; rfl
  rw [hb] at h1
  exact ⟨hr, ho, s1, b1, b2, hd, h1, h2, rfl, rfl⟩

theorem execSendFrom_inv {s s' : State} {blk : Block} {snd : Addr} {o c : AddrArg} {amt : Nat}
    {p : String} {out : List Out} (h : execSendFrom s blk snd o c amt p = .ok (s', out)) :
    c.valid = true ∧ o.valid = true ∧ ∃ s1 b1 b2, deduct s blk o.text snd amt = .ok s1 ∧
      debit s.balances o.text amt = .ok b1 ∧ credit b1 c.text amt = .ok b2 ∧
      s' = { s1 with balances := b2 } ∧ out = [⟨c.text, snd, amt, p⟩] := by
  simp [execSendFrom] at h
  obtain ⟨hr, ho, s1, hd, b1, h1, b2, h2, rfl, rfl⟩ := h
  have hb : s1.balances = s.balances := by
    obtain ⟨_, _, _, _, _, _, _, _, rfl⟩ := deduct_ok.mp hd; rfl
  rw [hb] at h1
  exact ⟨hr, ho, s1, b1, b2, hd, h1, h2, rfl, rfl⟩

theorem execBurnFrom_inv {s s' : State} {blk : Block} {snd : Addr} {o : AddrArg} {amt : Nat}
    {out : List Out} (h : execBurnFrom s blk snd o amt = .ok (s', out)) :
    o.valid = true ∧ ∃ s1 b1, deduct s blk o.text snd amt = .ok s1 ∧
      debit s.balances o.text amt = .ok b1 ∧ amt ≤ s.supply ∧
      s' = { s1 with balances := b1, supply := s.supply - amt } ∧ out = [] := by
  simp [execBurnFrom] at h
  obtain ⟨ho, s1, hd, b1, h1, hle, rfl, rfl⟩ := h
  obtain ⟨hb, hs⟩ : s1.balances = s.balances ∧ s1.supply = s.supply := by
    obtain ⟨_, _, _, _, _, _, _, _, rfl⟩ := deduct_ok.mp hd; exact ⟨rfl, rfl⟩
  rw [hb] at h1
  rw [hs] at hle
  exact ⟨ho, s1, b1, hd, h1, hle, by rw [hs], rfl⟩

/-! ## Sum of the allowances granted by one owner -/

/-- Σ of the amounts of all `ALLOWANCES` entries whose owner is `a`. -/
def ownerSum (m : AMap (Addr × Addr) Allowance) (a : Addr) : Nat :=
  match m with
  | [] => 0
  | (k, v) :: rest => (if k.1 = a then v.amount else 0) + ownerSum rest a

/-- Writing the entry `(o, sp)` changes the owner's sum by exactly the difference at that entry (and only
when `o = a`). -/
theorem ownerSum_set (m : AMap (Addr × Addr) Allowance) (o sp : Addr) (v : Allowance) (a : Addr) :
    ownerSum (m.set (o, sp) v) a + (if o = a then ((m.get? (o, sp)).getD Allowance.default).amount else 0)
      = ownerSum m a + (if o = a then v.amount else 0) := by
  induction m with
  | nil => simp [AMap.set, ownerSum, AMap.get?, Allowance.default]
  | cons p rest ih =>
    obtain ⟨k, v'⟩ := p
    by_cases h : k = (o, sp)
    · subst h
      simp only [AMap.set, AMap.get?, if_true, ownerSum, Option.getD_some]
      split <;> omega
    · simp only [AMap.set, AMap.get?, if_neg h, ownerSum]
      omega

/-- Removing an entry never raises the owner's sum. -/
theorem ownerSum_erase_le (m : AMap (Addr × Addr) Allowance) (k : Addr × Addr) (a : Addr) :
    ownerSum (m.erase k) a ≤ ownerSum m a := by
  induction m with
  | nil => simp [AMap.erase, ownerSum]
  | cons p rest ih =>
    obtain ⟨k', v'⟩ := p
    by_cases h : k' = k
    · simp only [AMap.erase, if_pos h, ownerSum]; omega
    · simp only [AMap.erase, if_neg h, ownerSum]; omega

/-- Every single allowance of the owner is part of the owner's sum. -/
theorem get?_le_ownerSum (m : AMap (Addr × Addr) Allowance) (a sp : Addr) :
    ((m.get? (a, sp)).getD Allowance.default).amount ≤ ownerSum m a := by
  induction m with
  | nil => simp [AMap.get?, Allowance.default]
  | cons p rest ih =>
    obtain ⟨k, v'⟩ := p
    by_cases h : k = (a, sp)
    · subst h; simp [AMap.get?, ownerSum]
    · simp only [AMap.get?, if_neg h, ownerSum]; omega

end CwPlus.Cw20
