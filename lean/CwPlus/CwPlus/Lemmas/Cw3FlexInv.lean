import CwPlus.Lemmas.Cw3Flex
/-!
# cw3-flex: the strengthened state invariant `Inv'` and the ghost-log guard `CleanStart`

`Inv` (Lemmas/Cw3Flex.lean) says nothing about the threshold of a stored proposal.  `Inv'` adds

* every stored proposal carries the configured threshold (`propThr`),
* the configured threshold passed `Threshold::validate` for some total (`cfgValid`: the total at instantiation),
* for an `AbsoluteCount k` proposal either `k ≤ total_weight` or the proposer's own ballot already weighs `k`
  (`countOk`: `Propose` stores `current_status`, which for `AbsoluteCount` either finds the proposal passed by the
  proposer's weight or evaluates `total_weight - k`, a checked `u64` subtraction).

`Inv` itself is unchanged; `Inv'` is preserved by every handler call (`execute_inv'`) and holds in every reachable
world (`reachable_inv'`).

`CleanStart log id h` is the guard that excludes the known same-block finding (D3): in the ghost log no group write
at height `h` precedes the `Propose` that created proposal `id`.
-/
namespace CwPlus.Cw3Flex
open CwPlus CwPlus.Cw3 CwPlus.Cw3Core

/-- `Threshold::validate` depends on the total only through `AbsoluteCount`'s `weight ≤ total`. -/
theorem validate_of_validate {thr : Threshold} {t0 total : Nat} (h : thr.validate t0 = .ok ())
    (hk : ∀ k, thr = .absoluteCount k → k ≤ total) : thr.validate total = .ok () := by
  cases thr with
  | absoluteCount k =>
    have := hk k rfl
    simp [Threshold.validate] at h ⊢
    exact ⟨h.1, this⟩
  | absolutePercentage p => simpa [Threshold.validate] using h
  | thresholdQuorum t q => simpa [Threshold.validate] using h

/-- What `Propose` learns from `current_status` of a fresh `AbsoluteCount k` proposal answering at all: passed by the
proposer's own weight, or `total - k` did not underflow. -/
theorem count_of_fresh_status {p0 : Proposal} {blk : Block} {st : Status} {k : Nat} (ho : p0.status = .open)
    (ht : p0.threshold = .absoluteCount k) (h : p0.currentStatus blk = .ok st) :
    k ≤ p0.totalWeight ∨ k ≤ p0.votes.yes := by
  rcases cs_of_open (t := p0.tally) (by simp [Proposal.tally, ho]) h with ⟨hp, _⟩ | ⟨_, rej, hr, _⟩
  · right
    simp only [Cw3.isPassed, Proposal.tally, ht] at hp
    split at hp
    · cases hp
    · simpa using hp
  · left
    simp only [Cw3.isRejected, Proposal.tally, ht] at hr
    simp at hr
    obtain ⟨_, ⟨h1, _⟩, _⟩ := hr
    exact h1

/-- `Inv` strengthened by what `Inv` lacks about thresholds (see the module text).  A new structure: `Inv` is unchanged. -/
structure Inv' (s : State) : Prop where
  inv : Inv s
  propThr : ∀ id p, s.core.proposals.get? id = some p → p.threshold = s.cfg.threshold
  cfgValid : ∃ t0, s.cfg.threshold.validate t0 = .ok ()
  countOk : ∀ id p k, s.core.proposals.get? id = some p → p.threshold = .absoluteCount k →
    k ≤ p.totalWeight ∨ ∃ b, (ballotsOf s.core id).get? p.proposer = some b ∧ k ≤ b.weight

theorem instantiate_inv' {m : InstMsg} {g : Option Cw4Group.State} {s : State} (h : instantiate m g = .ok s) : Inv' s := by
  have hi := instantiate_inv h
  simp only [instantiate, Res.bind_ok] at h
  obtain ⟨_, _, total, _, _, hv, dep, hdep, h⟩ := h
  simp at h; subst h
  refine ⟨hi, ?_, ⟨total, by cases ‹Unit›; exact hv⟩, ?_⟩
  · intro id p hp; simp [Core.empty] at hp
  · intro id p k hp; simp [Core.empty] at hp

theorem execute_inv' {s s' : State} {g : Cw4Group.State} {self : Addr} {blk : Block} {snd : Addr} {funds : List Coin}
    {m : ExecMsg} {out : List Out} (hi : Inv' s) (h : execute s g self blk snd funds m = .ok (s', out)) : Inv' s' := by
  obtain ⟨hcfg, hc⟩ := execute_cases h
  refine ⟨execute_inv hi.inv h, ?_, hcfg ▸ hi.cfgValid, ?_⟩
  all_goals
    rcases hc with ⟨t, d, msgs, latest, w, total, id, _, _, _, _, _, hp⟩ | ⟨id, v, _, _, hv⟩ | ⟨id, p, msgs, _, _, he, _⟩ |
      ⟨id, p, _, _, hcl, _⟩ | ⟨_, _, rfl, _⟩
  -- propThr
  · obtain ⟨expires, st, _, _, hid, _, hc'⟩ := propose_spec hp
    intro id' p' hp'
    rw [hc'] at hp'; simp only [AMap.get?_set] at hp'
    by_cases e : id = id'
    · simp only [e, if_true, Option.some.injEq] at hp'; subst hp'; simp [hcfg]
    · simp only [e, if_false] at hp'; rw [hcfg]; exact hi.propThr id' p' hp'
  · obtain ⟨p, w, votes, st, hp, _, _, _, _, _, _, _, hc'⟩ := vote_spec hv
    intro id' p' hp'
    rw [hc'] at hp'; simp only [AMap.get?_set] at hp'
    by_cases e : id = id'
    · simp only [e, if_true, Option.some.injEq] at hp'; subst hp'; rw [hcfg]; exact hi.propThr id p hp
    · simp only [e, if_false] at hp'; rw [hcfg]; exact hi.propThr id' p' hp'
  · obtain ⟨p0, hp0, _, _, _, hc'⟩ := execute_spec he
    intro id' p' hp'
    rw [hc'] at hp'; simp only [AMap.get?_set] at hp'
    by_cases e : id = id'
    · simp only [e, if_true, Option.some.injEq] at hp'; subst hp'; rw [hcfg]; exact hi.propThr id p0 hp0
    · simp only [e, if_false] at hp'; rw [hcfg]; exact hi.propThr id' p' hp'
  · obtain ⟨p0, _, hp0, _, _, _, _, _, _, hc'⟩ := close_spec hcl
    intro id' p' hp'
    rw [hc'] at hp'; simp only [AMap.get?_set] at hp'
    by_cases e : id = id'
    · simp only [e, if_true, Option.some.injEq] at hp'; subst hp'; rw [hcfg]; exact hi.propThr id p0 hp0
    · simp only [e, if_false] at hp'; rw [hcfg]; exact hi.propThr id' p' hp'
  · exact hi.propThr
  -- countOk
  · obtain ⟨expires, st, _, hst, hid, _, hc'⟩ := propose_spec hp
    intro id' p' k hp' ht
    rw [hc'] at hp'; simp only [AMap.get?_set] at hp'
    simp only [hc', ballotsOf_set]
    by_cases e : id = id'
    · simp only [e, if_true, Option.some.injEq] at hp'; subst hp'
      simp only at ht ⊢
      rcases count_of_fresh_status rfl ht hst with h1 | h1
      · exact Or.inl h1
      · right; refine ⟨⟨w, .yes⟩, by simp [e], h1⟩
    · simp only [e, if_false] at hp' ⊢; exact hi.countOk id' p' k hp' ht
  · obtain ⟨p, w, votes, st, hp, _, _, _, _, hnb, _, _, hc'⟩ := vote_spec hv
    intro id' p' k hp' ht
    rw [hc'] at hp'; simp only [AMap.get?_set] at hp'
    simp only [hc', ballotsOf_set]
    by_cases e : id = id'
    · simp only [e, if_true, Option.some.injEq] at hp'; subst hp'; subst e
      simp only at ht ⊢
      rcases hi.countOk id p k hp ht with h1 | ⟨b, hb, h1⟩
      · exact Or.inl h1
      · right
        refine ⟨b, ?_, h1⟩
        simp only [if_true]
        rw [AMap.get?_set]
        by_cases ea : snd = p.proposer
        · rw [ea] at hnb; rw [hnb] at hb; cases hb
        · simp only [ea, if_false]; exact hb
    · simp only [e, if_false] at hp' ⊢; exact hi.countOk id' p' k hp' ht
  · obtain ⟨p0, hp0, _, _, _, hc'⟩ := execute_spec he
    intro id' p' k hp' ht
    rw [hc'] at hp'; simp only [AMap.get?_set] at hp'
    simp only [hc', ballotsOf_frame]
    by_cases e : id = id'
    · simp only [e, if_true, Option.some.injEq] at hp'; subst hp'; subst e; exact hi.countOk id p0 k hp0 ht
    · simp only [e, if_false] at hp'; exact hi.countOk id' p' k hp' ht
  · obtain ⟨p0, _, hp0, _, _, _, _, _, _, hc'⟩ := close_spec hcl
    intro id' p' k hp' ht
    rw [hc'] at hp'; simp only [AMap.get?_set] at hp'
    simp only [hc', ballotsOf_frame]
    by_cases e : id = id'
    · simp only [e, if_true, Option.some.injEq] at hp'; subst hp'; subst e; exact hi.countOk id p0 k hp0 ht
    · simp only [e, if_false] at hp'; exact hi.countOk id' p' k hp' ht
  · exact hi.countOk

theorem reachable_inv' {ext : Ext} {fuel : Nat} {w : World} (h : Reachable ext fuel w) : Inv' w.flex := by
  obtain ⟨m, s, g, t, bank, self, ga, ta, h0, ops, hi, rfl⟩ := h
  exact run_state_inv ext Inv' (fun _ _ _ _ _ _ _ _ _ hi h => execute_inv' hi h) fuel ops _ (instantiate_inv' hi)

/-- One ballot weighs at most all ballots together. -/
theorem weight_le_weightSum : ∀ {bs : AMap Addr Ballot} {a : Addr} {b : Ballot}, bs.get? a = some b → b.weight ≤ weightSum bs
  | [], _, _, h => by simp [AMap.get?] at h
  | (a', b') :: rest, a, b, h => by
    simp only [weightSum, List.map_cons, List.sum_cons]
    by_cases e : a' = a
    · simp [AMap.get?, e] at h; subst h; omega
    · simp [AMap.get?, e] at h
      have := weight_le_weightSum (bs := rest) h
      simp only [weightSum] at this
      omega

/-! ## the guard on the ghost log -/

/-- The event records the creation of proposal `id`. -/
def Event.isProposed (id : Nat) : Event → Bool
  | .proposed id' _ => id' == id
  | _ => false

/-- On the log read newest-first: every `proposed id` event has no `groupWrite h` among the older events. -/
def cleanRev (id h : Nat) : List Event → Bool
  | [] => true
  | e :: older => (!(Event.isProposed id e) || !(older.contains (.groupWrite h))) && cleanRev id h older

/-- **The guard that excludes the same-block finding.**  In the ghost log no group write at height `h` precedes the
`Propose` that created proposal `id` (vacuously true when `id` was never proposed).  Used with `h = start_height`:
no membership change earlier in the proposal's own block. -/
def CleanStart (log : List Event) (id h : Nat) : Prop := cleanRev id h log.reverse = true

instance (log : List Event) (id h : Nat) : Decidable (CleanStart log id h) := by unfold CleanStart; infer_instance

theorem cleanStart_snoc (log : List Event) (e : Event) (id h : Nat) :
    CleanStart (log ++ [e]) id h ↔ (Event.isProposed id e = true → Event.groupWrite h ∉ log) ∧ CleanStart log id h := by
  unfold CleanStart
  rw [List.reverse_append]
  simp only [List.reverse_cons, List.reverse_nil, List.nil_append, List.singleton_append, cleanRev, Bool.and_eq_true,
    Bool.or_eq_true, Bool.not_eq_true', List.contains_eq_mem, List.mem_reverse, decide_eq_false_iff_not]
  constructor
  · rintro ⟨h1, h2⟩
    refine ⟨fun he => ?_, h2⟩
    rcases h1 with h1 | h1
    · rw [he] at h1; cases h1
    · exact h1
  · rintro ⟨h1, h2⟩
    refine ⟨?_, h2⟩
    cases he : Event.isProposed id e
    · exact Or.inl rfl
    · exact Or.inr (h1 he)

theorem cleanStart_nil (id h : Nat) : CleanStart [] id h := rfl

/-- A flex handler call never logs a group write, and logs `proposed id` only for the fresh id `count + 1`. -/
theorem eventOf_isProposed (s : State) (snd : Addr) (m : ExecMsg) (id : Nat) :
    Event.isProposed id (eventOf s snd m) = true ↔ (∃ t d msgs latest, m = .propose t d msgs latest) ∧ id = s.core.count + 1 := by
  cases m with
  | propose t d msgs latest =>
    simp only [eventOf, Event.isProposed, beq_iff_eq]
    exact ⟨fun h => ⟨⟨t, d, msgs, latest, rfl⟩, h.symm⟩, fun h => h.2.symm⟩
  | vote id' v => simp [eventOf, Event.isProposed]
  | execute id' => simp [eventOf, Event.isProposed]
  | close id' => simp [eventOf, Event.isProposed]
  | memberChangedHook => simp [eventOf, Event.isProposed]

end CwPlus.Cw3Flex
