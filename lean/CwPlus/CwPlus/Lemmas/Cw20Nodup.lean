import CwPlus.Model.Cw20
import CwPlus.Lemmas.Cw20Marketing
/-!
# cw20: the three maps never hold a key twice

`NodupInv` (no duplicate keys in `balances`, `allow`, `allowSp`) is established by
`instantiate` and preserved by `execute`, `step`, `migrate`.  It is what makes the
sorted listing of a map strictly sorted (C20) and lookups order-independent.
-/
namespace CwPlus.Cw20
open CwPlus

/-- No key occurs twice in any of the three maps. -/
structure NodupInv (s : State) : Prop where
  balances : AMap.NodupKeys s.balances
  allow : AMap.NodupKeys s.allow
  allowSp : AMap.NodupKeys s.allowSp

theorem nodupKeys_nil {κ ν : Type} [DecidableEq κ] : AMap.NodupKeys ([] : AMap κ ν) := by
  simp [AMap.NodupKeys, AMap.keys]

theorem createAccounts_nodup (l : List (AddrArg × Nat)) (b : AMap Addr Nat) (t : Nat)
    {b' : AMap Addr Nat} {t' : Nat} (h : createAccounts l b t = .ok (b', t')) (hb : AMap.NodupKeys b) :
    AMap.NodupKeys b' := by
  induction l generalizing b t with
  | nil => simp [createAccounts] at h; obtain ⟨rfl, rfl⟩ := h; exact hb
  | cons p rest ih =>
    obtain ⟨a, amt⟩ := p
    simp [createAccounts] at h
    obtain ⟨_, _, h⟩ := h
    exact ih _ _ h (AMap.nodup_set hb)

/-- Every accepted instantiation establishes the invariant. -/
theorem instantiate_nodup {m : InstMsg} {s : State} (h : instantiate m = .ok s) : NodupInv s := by
  simp [instantiate] at h
  obtain ⟨_, _, b, t, hc, _, w, _, mk, lg, _, rfl⟩ := h
  exact ⟨createAccounts_nodup _ _ _ hc nodupKeys_nil, nodupKeys_nil, nodupKeys_nil⟩

theorem debit_nodup {b b' : AMap Addr Nat} {a : Addr} {amt : Nat} (h : debit b a amt = .ok b')
    (hb : AMap.NodupKeys b) : AMap.NodupKeys b' := by
  simp [debit] at h
  obtain ⟨_, rfl⟩ := h
  exact AMap.nodup_set hb

theorem credit_nodup {b b' : AMap Addr Nat} {a : Addr} {amt : Nat} (h : credit b a amt = .ok b')
    (hb : AMap.NodupKeys b) : AMap.NodupKeys b' := by
  simp [credit] at h
  obtain ⟨_, rfl⟩ := h
  exact AMap.nodup_set hb

theorem deduct_nodup {s s1 : State} {blk : Block} {o sp : Addr} {amt : Nat}
    (h : deduct s blk o sp amt = .ok s1) (hi : NodupInv s) : NodupInv s1 := by
  simp [deduct] at h
  obtain ⟨a1, _, a2, _, rfl⟩ := h
  exact ⟨hi.balances, AMap.nodup_set hi.allow, AMap.nodup_set hi.allowSp⟩

/-- Every successful call of every message kind preserves the invariant. -/
theorem execute_nodup {s s' : State} {blk : Block} {snd : Addr} {msg : Msg} {out : List Out}
    (hi : NodupInv s) (h : execute s blk snd msg = .ok (s', out)) : NodupInv s' := by
  cases msg <;> simp only [execute] at h
  case transfer to amt =>
    simp [execTransfer] at h
    obtain ⟨_, b1, h1, b2, h2, rfl, _⟩ := h
    exact ⟨credit_nodup h2 (debit_nodup h1 hi.balances), hi.allow, hi.allowSp⟩
  case burn amt =>
    simp [execBurn] at h
    obtain ⟨b1, h1, hle, rfl, _⟩ := h
    exact ⟨debit_nodup h1 hi.balances, hi.allow, hi.allowSp⟩
  case send c amt p =>
    simp [execSend] at h
    obtain ⟨_, b1, h1, b2, h2, rfl, _⟩ := h
    exact ⟨credit_nodup h2 (debit_nodup h1 hi.balances), hi.allow, hi.allowSp⟩
  case mint to amt =>
    unfold execMint at h
    split at h
    · simp at h
    · simp at h
      obtain ⟨_, hle, _, _, b, h1, rfl, _⟩ := h
      exact ⟨credit_nodup h1 hi.balances, hi.allow, hi.allowSp⟩
  case updateMinter new =>
    unfold execUpdateMinter at h
    split at h
    · simp at h
    · split at h
      · simp at h; obtain ⟨_, rfl, _⟩ := h; exact ⟨hi.balances, hi.allow, hi.allowSp⟩
      · simp at h; obtain ⟨_, _, rfl, _⟩ := h; exact ⟨hi.balances, hi.allow, hi.allowSp⟩
  case increaseAllowance sp amt e =>
    simp [execIncreaseAllowance] at h
    obtain ⟨_, _, a1, _, a2, _, rfl, _⟩ := h
    exact ⟨hi.balances, AMap.nodup_set hi.allow, AMap.nodup_set hi.allowSp⟩
  case decreaseAllowance sp amt e =>
    unfold execDecreaseAllowance at h
    simp at h
    obtain ⟨_, _, h⟩ := h
    split at h
    · simp at h
    · split at h
      · simp at h; obtain ⟨e', _, rfl, _⟩ := h
        exact ⟨hi.balances, AMap.nodup_set hi.allow, AMap.nodup_set hi.allowSp⟩
      · simp at h; obtain ⟨rfl, _⟩ := h
        exact ⟨hi.balances, AMap.nodup_erase hi.allow, AMap.nodup_erase hi.allowSp⟩
  case transferFrom o to amt =>
    simp [execTransferFrom] at h
    obtain ⟨_, _, s1, hd, b1, h1, b2, h2, rfl, _⟩ := h
    have h1' := deduct_nodup hd hi
    exact ⟨credit_nodup h2 (debit_nodup h1 h1'.balances), h1'.allow, h1'.allowSp⟩
  case burnFrom o amt =>
    simp [execBurnFrom] at h
    obtain ⟨_, s1, hd, b1, h1, _, rfl, _⟩ := h
    have h1' := deduct_nodup hd hi
    exact ⟨debit_nodup h1 h1'.balances, h1'.allow, h1'.allowSp⟩
  case sendFrom o c amt p =>
    simp [execSendFrom] at h
    obtain ⟨_, _, s1, hd, b1, h1, b2, h2, rfl, _⟩ := h
    have h1' := deduct_nodup hd hi
    exact ⟨credit_nodup h2 (debit_nodup h1 h1'.balances), h1'.allow, h1'.allowSp⟩
  case updateMarketing p d m =>
    obtain ⟨mk, rfl, _⟩ := execUpdateMarketing_frame h
    exact ⟨hi.balances, hi.allow, hi.allowSp⟩
  case uploadLogo l =>
    obtain ⟨mk, rfl, _⟩ := execUploadLogo_frame h
    exact ⟨hi.balances, hi.allow, hi.allowSp⟩

/-- One transaction (commit or roll back) preserves the invariant. -/
theorem step_nodup {s : State} (blk : Block) (snd : Addr) (msg : Msg) (hi : NodupInv s) :
    NodupInv (step s blk snd msg) := by
  unfold step
  split
  · rename_i s' out h; exact execute_nodup hi h
  · exact hi

/-- Every history preserves the invariant. -/
theorem run_nodup (ops : List (Block × Addr × Msg)) {s : State} (hi : NodupInv s) :
    NodupInv (ops.foldl (fun s op => step s op.1 op.2.1 op.2.2) s) := by
  induction ops generalizing s with
  | nil => exact hi
  | cons op rest ih => exact ih (step_nodup _ _ _ hi)

theorem foldl_set_nodup {κ ν α : Type} [DecidableEq κ] (l : List α) (f : α → κ) (g : α → ν) (m : AMap κ ν)
    (hm : AMap.NodupKeys m) : AMap.NodupKeys (l.foldl (fun acc p => acc.set (f p) (g p)) m) := by
  induction l generalizing m with
  | nil => exact hm
  | cons p rest ih => exact ih _ (AMap.nodup_set hm)

/-- `migrate` (including the pre-0.14 rebuild of `ALLOWANCES_SPENDER`) preserves the invariant. -/
theorem migrate_nodup {s s' : State} (hi : NodupInv s) (h : migrate s = .ok s') : NodupInv s' := by
  unfold migrate at h
  simp at h
  obtain ⟨_, _, h⟩ := h
  split at h
  · simp only [pure, Except.pure, Except.ok.injEq] at h
    subst h
    exact ⟨hi.balances, hi.allow,
      foldl_set_nodup s.allow (fun p => (p.1.2, p.1.1)) (fun p => p.2) s.allowSp hi.allowSp⟩
  · simp only [pure, Except.pure, Except.ok.injEq] at h
    subst h
    exact ⟨hi.balances, hi.allow, hi.allowSp⟩

/-! ## The prefix views used by the allowance listings -/

/-- Keys of `m.prefix(a)` are distinct when the keys `(a, b)` of `m` are. -/
theorem prefix_nodup {ν : Type} (m : AMap (Addr × Addr) ν) (a : Addr) (hm : AMap.NodupKeys m) :
    AMap.NodupKeys ((m.filter (fun p => p.1.1 = a)).map (fun p => (p.1.2, p.2))) := by
  unfold AMap.NodupKeys AMap.keys List.Nodup at *
  rw [List.map_map, List.pairwise_map]
  rw [List.pairwise_map] at hm
  have h1 := List.Pairwise.filter (fun p => decide (p.1.1 = a)) hm
  rw [List.pairwise_iff_forall_sublist] at h1 ⊢
  intro x y hxy
  have hx : x.1.1 = a := by
    have := hxy.subset (List.mem_cons_self ..); simpa using (List.mem_filter.mp this).2
  have hy : y.1.1 = a := by
    have := hxy.subset (List.mem_cons_of_mem _ (List.mem_cons_self ..)); simpa using (List.mem_filter.mp this).2
  have := h1 hxy
  intro e
  apply this
  exact Prod.ext (hx.trans hy.symm) e

theorem ownerPrefix_nodup {s : State} (hi : AMap.NodupKeys s.allow) (owner : Addr) :
    AMap.NodupKeys (ownerPrefix s owner) :=
  prefix_nodup s.allow owner hi

theorem spenderPrefix_nodup {s : State} (hi : AMap.NodupKeys s.allowSp) (spender : Addr) :
    AMap.NodupKeys (spenderPrefix s spender) :=
  prefix_nodup s.allowSp spender hi

end CwPlus.Cw20
