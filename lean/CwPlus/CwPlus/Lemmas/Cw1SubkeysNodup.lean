import CwPlus.Model.Cw1Subkeys
/-!
# cw1-subkeys: `ALLOWANCES` and `PERMISSIONS` never hold a key twice

`NodupInv` is established by `instantiate` (both maps empty) and preserved by every handler
(`execute_nodup`), hence by every history (`run_nodup`).  Hypothesis of the `AllAllowances` /
`AllPermissions` completeness theorems of C20.  Core only.
-/
namespace CwPlus.Cw1Subkeys
open CwPlus
open CwPlus.Cw1Whitelist (AddrArg CosmosMsg)

/-- No key occurs twice in `ALLOWANCES` / `PERMISSIONS`. -/
structure NodupInv (s : State) : Prop where
  allowances : AMap.NodupKeys s.allowances
  permissions : AMap.NodupKeys s.permissions

theorem instantiate_nodup {m : InstMsg} {s : State} (h : instantiate m = .ok s) : NodupInv s := by
  simp [instantiate] at h
  obtain ⟨c, _, rfl⟩ := h
  constructor <;> simp [AMap.NodupKeys, AMap.keys]

theorem checkMsg_nodup {s s' : State} {blk : Block} {snd : Addr} {m : CosmosMsg}
    (h : checkMsg s blk snd m = .ok s') (hi : NodupInv s) : NodupInv s' := by
  unfold checkMsg at h
  split at h
  · split at h
    · simp at h
    · simp at h; obtain ⟨_, rfl⟩ := h; exact hi
  · split at h
    · simp at h
    · simp at h; obtain ⟨_, rfl⟩ := h; exact hi
  · split at h
    · simp at h
    · simp at h
      obtain ⟨_, b, _, rfl⟩ := h
      exact ⟨AMap.nodup_set hi.allowances, hi.permissions⟩
  · simp at h

theorem checkMsgs_nodup {s s' : State} {blk : Block} {snd : Addr} {msgs : List CosmosMsg}
    (h : checkMsgs s blk snd msgs = .ok s') (hi : NodupInv s) : NodupInv s' := by
  induction msgs generalizing s with
  | nil => simp [checkMsgs] at h; subst h; exact hi
  | cons m rest ih =>
    simp [checkMsgs] at h
    obtain ⟨s1, h1, h2⟩ := h
    exact ih h2 (checkMsg_nodup h1 hi)

/-- Every successful call of every message kind preserves the invariant. -/
theorem execute_nodup {s s' : State} {blk : Block} {snd : Addr} {msg : Msg} {out : List CosmosMsg}
    (hi : NodupInv s) (h : execute s blk snd msg = .ok (s', out)) : NodupInv s' := by
  cases msg <;> simp only [execute] at h
  case execute msgs =>
    unfold execExecute at h
    split at h
    · simp at h; obtain ⟨rfl, _⟩ := h; exact hi
    · simp at h
      obtain ⟨s1, h1, rfl, _⟩ := h
      exact checkMsgs_nodup h1 hi
  case freeze =>
    simp [execFreeze] at h
    obtain ⟨c, o, _, rfl, _⟩ := h
    exact ⟨hi.allowances, hi.permissions⟩
  case updateAdmins admins =>
    simp [execUpdateAdmins] at h
    obtain ⟨c, o, _, rfl, _⟩ := h
    exact ⟨hi.allowances, hi.permissions⟩
  case increaseAllowance sp c e =>
    simp [execIncreaseAllowance] at h
    obtain ⟨_, _, _, a, _, rfl, _⟩ := h
    exact ⟨AMap.nodup_set hi.allowances, hi.permissions⟩
  case decreaseAllowance sp c e =>
    simp only [execDecreaseAllowance] at h
    simp at h
    obtain ⟨_, _, _, a, _, h⟩ := h
    split at h <;> simp at h <;> obtain ⟨rfl, _⟩ := h
    · exact ⟨AMap.nodup_erase hi.allowances, hi.permissions⟩
    · exact ⟨AMap.nodup_set hi.allowances, hi.permissions⟩
  case setPermissions sp p =>
    simp [execSetPermissions] at h
    obtain ⟨_, _, _, rfl, _⟩ := h
    exact ⟨hi.allowances, AMap.nodup_set hi.permissions⟩

theorem step_nodup {s : State} (blk : Block) (snd : Addr) (msg : Msg) (hi : NodupInv s) :
    NodupInv (step s blk snd msg) := by
  unfold step
  split
  · rename_i s' out h; exact execute_nodup hi h
  · exact hi

/-- Every history preserves the invariant. -/
theorem run_nodup (ops : List (Block × Addr × Msg)) {s : State} (hi : NodupInv s) :
    NodupInv (ops.foldl (fun s op => step s op.1 op.2.1 op.2.2) s) := by
  induction ops generalizing s with
  | nil => exact hi
  | cons op rest ih => exact ih (step_nodup _ _ _ hi)

end CwPlus.Cw1Subkeys
