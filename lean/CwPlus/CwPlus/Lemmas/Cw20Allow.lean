import CwPlus.Model.Cw20
/-!
Helper lemmas for C19 about pair-keyed maps: mirrored maps (`(a,b) ↦ v` in one, `(b,a) ↦ v` in the
other), the `foldl … set` of `migrate` that rebuilds the mirror, and prefix views.  Core only.
-/
namespace CwPlus.Lemmas.Cw20Allow
open CwPlus

variable {ν : Type}

/-- `b` holds under `(y, x)` exactly what `a` holds under `(x, y)`. -/
def Mirror (a b : AMap (Addr × Addr) ν) : Prop := ∀ x y, a.get? (x, y) = b.get? (y, x)

theorem mirror_nil : Mirror ([] : AMap (Addr × Addr) ν) [] := fun _ _ => rfl

theorem mirror_set {a b : AMap (Addr × Addr) ν} (h : Mirror a b) (x y : Addr) (v : ν) :
    Mirror (a.set (x, y) v) (b.set (y, x) v) := by
  intro x' y'
  rw [AMap.get?_set, AMap.get?_set, h x' y']
  by_cases e : x = x' ∧ y = y'
  · obtain ⟨rfl, rfl⟩ := e; simp
  · have e1 : ¬ (x, y) = (x', y') := by simpa using e
    have e2 : ¬ (y, x) = (y', x') := by
      intro he; simp at he; exact e ⟨he.2, he.1⟩
    simp [e1, e2]

theorem mirror_erase {a b : AMap (Addr × Addr) ν} (h : Mirror a b) (x y : Addr) :
    Mirror (a.erase (x, y)) (b.erase (y, x)) := by
  intro x' y'
  rw [AMap.get?_erase, AMap.get?_erase, h x' y']
  by_cases e : x = x' ∧ y = y'
  · obtain ⟨rfl, rfl⟩ := e; simp
  · have e1 : ¬ (x, y) = (x', y') := by simpa using e
    have e2 : ¬ (y, x) = (y', x') := by
      intro he; simp at he; exact e ⟨he.2, he.1⟩
    simp [e1, e2]

/-- The loop of `migrate`: save every entry of `l` under the swapped key. -/
def rebuild (l acc : AMap (Addr × Addr) ν) : AMap (Addr × Addr) ν :=
  l.foldl (fun acc (p : (Addr × Addr) × ν) => acc.set (p.1.2, p.1.1) p.2) acc

theorem nodupKeys_cons {κ : Type} {k : κ} {v : ν} {rest : AMap κ ν} (h : AMap.NodupKeys ((k, v) :: rest)) :
    k ∉ AMap.keys rest ∧ AMap.NodupKeys rest := by
  unfold AMap.NodupKeys AMap.keys at *
  simpa using h

/-- What the rebuilt map holds: the entry of `l` under the swapped key if there is one, otherwise what
the accumulator held.  Needs distinct keys in `l` (a storage map has them): lookups are first-match,
the loop is last-write-wins. -/
theorem get?_rebuild (l : AMap (Addr × Addr) ν) (hnd : AMap.NodupKeys l) (acc : AMap (Addr × Addr) ν) (x y : Addr) :
    (rebuild l acc).get? (y, x) = (l.get? (x, y)).or (acc.get? (y, x)) := by
  induction l generalizing acc with
  | nil => simp [rebuild]
  | cons p rest ih =>
    obtain ⟨⟨x', y'⟩, v⟩ := p
    obtain ⟨hk, hr⟩ := nodupKeys_cons hnd
    have := ih hr (acc.set (y', x') v)
    simp only [rebuild, List.foldl_cons] at this ⊢
    rw [this]
    by_cases e : x' = x ∧ y' = y
    · obtain ⟨rfl, rfl⟩ := e
      have hn : AMap.get? rest (x', y') = none := AMap.get?_eq_none_iff.mpr hk
      simp [AMap.get?, hn]
    · have e1 : ¬ (x', y') = (x, y) := by simpa using e
      have e2 : (y', x') ≠ (y, x) := by
        intro he; simp at he; exact e ⟨he.2, he.1⟩
      simp [AMap.get?, e1, AMap.get?_set_ne _ _ _ _ e2]

theorem nodup_rebuild (l acc : AMap (Addr × Addr) ν) (h : AMap.NodupKeys acc) : AMap.NodupKeys (rebuild l acc) := by
  induction l generalizing acc with
  | nil => exact h
  | cons p rest ih => exact ih _ (AMap.nodup_set h)

/-- Rebuilding from a duplicate-free map into an empty one yields its mirror. -/
theorem mirror_rebuild_nil (l : AMap (Addr × Addr) ν) (hnd : AMap.NodupKeys l) : Mirror l (rebuild l []) := by
  intro x y
  rw [get?_rebuild l hnd]; simp

/-- Rebuilding over an accumulator that already mirrors `l` changes nothing observable. -/
theorem mirror_rebuild_of_mirror (l acc : AMap (Addr × Addr) ν) (hnd : AMap.NodupKeys l) (h : Mirror l acc) :
    Mirror l (rebuild l acc) := by
  intro x y
  rw [get?_rebuild l hnd, ← h x y]
  cases AMap.get? l (x, y) <;> simp

/-- `Map::prefix(a)`: the entries whose first key component is `a`, keyed by the second component. -/
def pfx (m : AMap (Addr × Addr) ν) (a : Addr) : AMap Addr ν :=
  (m.filter (fun p => p.1.1 = a)).map (fun p => (p.1.2, p.2))

/-- Looking `b` up in the prefix view of `a` is looking `(a, b)` up in the map. -/
theorem get?_pfx (m : AMap (Addr × Addr) ν) (a b : Addr) : (pfx m a).get? b = m.get? (a, b) := by
  induction m with
  | nil => rfl
  | cons p rest ih =>
    obtain ⟨⟨x, y⟩, v⟩ := p
    unfold pfx at ih ⊢
    by_cases hx : x = a
    · subst hx
      by_cases hy : y = b
      · subst hy; simp [AMap.get?]
      · have : ¬ (x, y) = (x, b) := by simpa using hy
        simp [AMap.get?, hy, this, ih]
    · have : ¬ (x, y) = (a, b) := by intro e; simp at e; exact hx e.1
      simp [AMap.get?, hx, this, ih]

theorem mem_keys_pfx {m : AMap (Addr × Addr) ν} {a b : Addr} : b ∈ AMap.keys (pfx m a) ↔ (a, b) ∈ AMap.keys m := by
  rw [← Decidable.not_iff_not, ← AMap.get?_eq_none_iff, ← AMap.get?_eq_none_iff, get?_pfx]

theorem nodup_pfx {m : AMap (Addr × Addr) ν} (h : AMap.NodupKeys m) (a : Addr) : AMap.NodupKeys (pfx m a) := by
  induction m with
  | nil => simp [pfx, AMap.NodupKeys, AMap.keys]
  | cons p rest ih =>
    obtain ⟨⟨x, y⟩, v⟩ := p
    obtain ⟨hk, hr⟩ := nodupKeys_cons h
    have ih := ih hr
    by_cases hx : x = a
    · subst hx
      have e : pfx (((x, y), v) :: rest) x = (y, v) :: pfx rest x := by simp [pfx]
      rw [e]
      unfold AMap.NodupKeys AMap.keys
      simp only [List.map_cons, List.nodup_cons]
      refine ⟨?_, ih⟩
      intro hm
      exact hk (mem_keys_pfx.mp hm)
    · have e : pfx (((x, y), v) :: rest) a = pfx rest a := by simp [pfx, hx]
      rw [e]; exact ih

/-- In a map with distinct keys, membership of an entry is the same as looking it up. -/
theorem mem_iff_get? {κ : Type} [DecidableEq κ] {m : AMap κ ν} (h : AMap.NodupKeys m) (k : κ) (v : ν) :
    (k, v) ∈ m ↔ m.get? k = some v := by
  induction m with
  | nil => simp
  | cons p rest ih =>
    obtain ⟨k', v'⟩ := p
    obtain ⟨hk, hr⟩ := nodupKeys_cons h
    by_cases e : k' = k
    · subst e
      have : (k', v) ∉ rest := by
        intro hm; apply hk; unfold AMap.keys; exact List.mem_map.mpr ⟨_, hm, rfl⟩
      simp [AMap.get?, this]
      exact ⟨fun h => h.symm, fun h => h.symm⟩
    · have : ¬ (k = k' ∧ v = v') := fun h => e h.1.symm
      simp [AMap.get?, e, this, ih hr]

end CwPlus.Lemmas.Cw20Allow
