import CwPlus.Model.Ics20
/-!
Helper lemmas about the channel-state map of the cw20-ics20 model: pointwise effect of
`increase/reduce/undo_reduce_channel_balance`, map identities used by C11 and C12.
-/
namespace CwPlus.Ics20
open CwPlus

abbrev Key := String × Denom

/-- outstanding balance stored under a key (0 if absent) -/
def outAt (m : ChanMap) (k : Key) : Nat :=
  match m.get? k with | some cs => cs.outstanding | none => 0

/-- total_sent stored under a key (0 if absent) -/
def totAt (m : ChanMap) (k : Key) : Nat :=
  match m.get? k with | some cs => cs.totalSent | none => 0

theorem outstanding_eq (s : State) (c : String) (d : Denom) : outstanding s c d = outAt s.chan (c, d) := rfl

section
variable {κ ν : Type} [DecidableEq κ]

theorem AMap.set_set (m : AMap κ ν) (k : κ) (v v' : ν) : (m.set k v).set k v' = m.set k v' := by
  fun_induction AMap.set m k v <;> grind [AMap.set]

theorem AMap.set_get_self (m : AMap κ ν) (k : κ) (v : ν) (h : m.get? k = some v) : m.set k v = m := by
  fun_induction AMap.set m k v <;> grind [AMap.set, AMap.get?]
end

theorem increaseBalance_spec {m m' : ChanMap} {c : String} {d : Denom} {amt : Nat}
    (h : increaseBalance m c d amt = .ok m') :
    (∀ k, outAt m' k = if k = (c, d) then outAt m k + amt else outAt m k) ∧
    (∀ k, totAt m' k = if k = (c, d) then totAt m k + amt else totAt m k) ∧
    outAt m (c, d) + amt ≤ U128_MAX := by
  simp [increaseBalance] at h
  obtain ⟨h1, h2, rfl⟩ := h
  refine ⟨?_, ?_, ?_⟩
  · intro k
    by_cases hk : k = (c, d)
    · subst hk; simp [outAt]; cases hg : AMap.get? m (c, d) <;> simp
    · simp [outAt, hk, AMap.get?_set_ne _ _ _ _ (Ne.symm hk)]
  · intro k
    by_cases hk : k = (c, d)
    · subst hk; simp [totAt]; cases hg : AMap.get? m (c, d) <;> simp
    · simp [totAt, hk, AMap.get?_set_ne _ _ _ _ (Ne.symm hk)]
  · simp [outAt]; cases hg : AMap.get? m (c, d) <;> simp_all

theorem reduceBalance_spec {m m' : ChanMap} {c : String} {d : Denom} {amt : Nat}
    (h : reduceBalance m c d amt = .ok m') :
    ∃ cs, m.get? (c, d) = some cs ∧ amt ≤ cs.outstanding ∧ m' = m.set (c, d) ⟨cs.outstanding - amt, cs.totalSent⟩ ∧
    (∀ k, outAt m' k = if k = (c, d) then outAt m k - amt else outAt m k) ∧
    (∀ k, totAt m' k = totAt m k) := by
  unfold reduceBalance at h
  split at h
  · simp at h
  · rename_i cs hg
    simp at h
    obtain ⟨hle, rfl⟩ := h
    refine ⟨cs, hg, hle, rfl, ?_, ?_⟩
    · intro k
      by_cases hk : k = (c, d)
      · subst hk; simp [outAt, hg]
      · simp [outAt, hk, AMap.get?_set_ne _ _ _ _ (Ne.symm hk)]
    · intro k
      by_cases hk : k = (c, d)
      · subst hk; simp [totAt, hg]
      · simp [totAt, AMap.get?_set_ne _ _ _ _ (Ne.symm hk)]

/-- `undo_reduce` after `reduce` restores the map exactly. -/
theorem undoReduce_reduce {m m' : ChanMap} {c : String} {d : Denom} {amt : Nat}
    (h : reduceBalance m c d amt = .ok m') (hb : outAt m (c, d) ≤ U128_MAX) :
    undoReduce m' c d amt = .ok m := by
  obtain ⟨cs, hg, hle, rfl, _, _⟩ := reduceBalance_spec h
  have hb' : cs.outstanding ≤ U128_MAX := by simpa [outAt, hg] using hb
  simp only [undoReduce, AMap.get?_set_eq, Option.getD_some]
  have e : cs.outstanding - amt + amt = cs.outstanding := by omega
  simp [addU128, e, hb', AMap.set_set, bind, Except.bind, pure, Except.pure]
  exact AMap.set_get_self m (c, d) cs hg


/-! ## What a transaction does, op by op -/

theorem bankSend_frame {w w' : World} {a b : Addr} {d : String} {n : Nat} (h : w.bankSend a b d n = some w') :
    w'.st = w.st ∧ w'.tok = w.tok ∧ w'.self = w.self ∧ w'.tokens = w.tokens ∧ w'.faulty = w.faulty := by
  unfold World.bankSend at h; split at h <;> simp at h; subst h; exact ⟨rfl, rfl, rfl, rfl, rfl⟩

theorem tokSend_frame {w w' : World} {t a b : Addr} {n : Nat} (h : w.tokSend t a b n = some w') :
    w'.st = w.st ∧ w'.bank = w.bank ∧ w'.self = w.self ∧ w'.tokens = w.tokens ∧ w'.faulty = w.faulty := by
  unfold World.tokSend at h; split at h <;> simp at h; subst h; exact ⟨rfl, rfl, rfl, rfl, rfl⟩

/-- The three cases of an incoming packet. -/
theorem exec_recv_cases {w w' : World} {blk : Block} {p : PacketIn} {rv tv f : Bool} {o : Outcome}
    (h : w.exec blk (.recv p rv tv f) = .ok (w', o)) :
    ((∃ e, doReceive w.st p tv = .error e) ∧ w' = w ∧ o.ack = some .error ∧ o.sub = none) ∨
    (∃ s1 sub, doReceive w.st p tv = .ok (s1, sub) ∧ o.sub = some sub ∧
      ((({ w with st := s1 } : World).payout sub rv f = some w' ∧ o.ack = some .success) ∨
       (({ w with st := s1 } : World).payout sub rv f = none ∧ o.ack = some .error ∧
          ∃ ra ch, s1.replyArgs = some ra ∧ undoReduce s1.chan ra.channel ra.denom ra.amount = .ok ch ∧
            w' = { w with st := { s1 with chan := ch } }))) := by
  simp only [World.exec, ibcPacketReceive] at h
  cases hd : doReceive w.st p tv with
  | error e =>
    left
    simp [hd, World.dispatch] at h
    obtain ⟨rfl, rfl⟩ := h
    exact ⟨⟨e, rfl⟩, rfl, rfl, rfl⟩
  | ok r =>
    obtain ⟨s1, sub⟩ := r
    right
    refine ⟨s1, sub, rfl, ?_⟩
    simp [hd, World.dispatch] at h
    cases hp : ({ w with st := s1 } : World).payout sub rv f with
    | some w2 =>
      simp [hp] at h
      obtain ⟨a, b, ⟨rfl, rfl⟩, rfl, rfl⟩ := h
      exact ⟨rfl, Or.inl ⟨rfl, rfl⟩⟩
    | none =>
      simp [hp] at h
      obtain ⟨a, b, ⟨st', d, hr, rfl, rfl⟩, rfl, rfl⟩ := h
      have hid : sub.replyId = RECEIVE_ID := by
        unfold doReceive at hd
        split at hd
        · simp at hd
        · split at hd
          · simp at hd
          · simp at hd; obtain ⟨_, _, _, _, _, _, _, rfl⟩ := hd; rfl
      simp [reply, hid] at hr
      split at hr
      · simp at hr
      · rename_i ra hra
        simp at hr
        obtain ⟨ch, hch, rfl, rfl⟩ := hr
        exact ⟨rfl, Or.inr ⟨rfl, rfl, ra, ch, hra, hch, rfl⟩⟩

/-- What `do_ibc_packet_receive` does when it succeeds. -/
theorem doReceive_spec {s s1 : State} {p : PacketIn} {tv : Bool} {sub : SubMsg} (h : doReceive s p tv = .ok (s1, sub)) :
    ∃ amt d ch, p.amount = some amt ∧ p.voucher = some (p.srcPort, p.srcChan, d) ∧
      reduceBalance s.chan p.destChan d amt = .ok ch ∧
      s1 = { s with chan := ch, replyArgs := some ⟨p.destChan, d, amt⟩ } ∧
      sub.to = p.receiver ∧ sub.amount = amt ∧ sub.denom = d ∧ sub.replyId = RECEIVE_ID ∧
      (∃ g, checkGasLimit s d tv = .ok g ∧ sub.gas = g) := by
  unfold doReceive at h
  split at h
  · simp at h
  · rename_i amt ha
    split at h
    · simp at h
    · rename_i port c d hv
      simp at h
      obtain ⟨hp, hc, g, hg, ch, hch, rfl, rfl⟩ := h
      subst hp; subst hc
      exact ⟨amt, d, ch, ha, hv, hch, rfl, rfl, rfl, rfl, rfl, g, hg, rfl⟩

/-- The two cases of a failed send (error acknowledgement or timeout). -/
theorem dispatch_failure_cases {w w' : World} {s1 : State} {sub : SubMsg} {sv f : Bool} {d : Option Ack}
    (hid : sub.replyId = ACK_FAILURE_ID)
    (h : ({ w with st := s1 } : World).dispatch (some sub) sv f none = .ok (w', d)) :
    (({ w with st := s1 } : World).payout sub sv f = some w' ∧ d = none) ∨
    (({ w with st := s1 } : World).payout sub sv f = none ∧ w' = { w with st := s1 } ∧ d = some .error) := by
  simp only [World.dispatch] at h
  cases hp : ({ w with st := s1 } : World).payout sub sv f with
  | some w2 =>
    simp [hp] at h; obtain ⟨rfl, rfl⟩ := h; exact Or.inl ⟨rfl, rfl⟩
  | none =>
    simp [hp] at h
    obtain ⟨st', hr, rfl⟩ := h
    have hne : ACK_FAILURE_ID ≠ RECEIVE_ID := by decide
    simp [reply, hid, hne] at hr
    obtain ⟨rfl, rfl⟩ := hr
    exact Or.inr ⟨rfl, rfl, rfl⟩

theorem onPacketFailure_spec {s s1 : State} {chan : String} {data : Option Packet} {tv : Bool} {sub : SubMsg}
    (h : onPacketFailure s chan data tv = .ok (s1, sub)) :
    ∃ p ch, data = some p ∧ reduceBalance s.chan chan p.denom p.amount = .ok ch ∧ s1 = { s with chan := ch } ∧
      sub.to = p.sender ∧ sub.amount = p.amount ∧ sub.denom = p.denom ∧ sub.replyId = ACK_FAILURE_ID := by
  unfold onPacketFailure at h
  split at h
  · simp at h
  · rename_i p
    simp at h
    obtain ⟨ch, hch, g, _, rfl, rfl⟩ := h
    exact ⟨p, ch, rfl, hch, rfl, rfl, rfl, rfl, rfl⟩

/-- What `execute_transfer` does when it succeeds. -/
theorem execTransfer_spec {s s' : State} {blk : Block} {msg : TransferMsg} {d : Denom} {amt : Nat} {snd : Addr}
    {out : SendOut} (h : execTransfer s blk msg d amt snd = .ok (s', out)) :
    ∃ ch, increaseBalance s.chan msg.channel d amt = .ok ch ∧ s' = { s with chan := ch } ∧
      amt ≠ 0 ∧ amt ≤ U64_MAX ∧ msg.channel ∈ s.channels ∧ s.v1gov = none ∧
      out = ⟨msg.channel, ⟨amt, d, msg.remote, snd, msg.memo⟩,
             blk.time + (msg.timeout.getD s.config.defaultTimeout) * 1000000000⟩ ∧
      blk.time + (msg.timeout.getD s.config.defaultTimeout) * 1000000000 ≤ U64_MAX := by
  simp [execTransfer] at h
  obtain ⟨hne, hch, cfg, hc, _, _, hto, hamt, ch, hinc, rfl, rfl⟩ := h
  have hv : s.v1gov = none ∧ cfg = s.config := by
    unfold loadConfig at hc
    split at hc
    · simp at hc
    · rename_i hv; simp at hc; exact ⟨by simpa using hv, hc.symm⟩
  obtain ⟨hv, rfl⟩ := hv
  exact ⟨ch, hinc, rfl, hne, hamt, hch, hv, rfl, hto⟩


theorem exec_transferNative_spec {w w' : World} {blk : Block} {snd : Addr} {funds : List (String × Nat)}
    {msg : TransferMsg} {o : Outcome} (h : w.exec blk (.transferNative snd funds msg) = .ok (w', o)) :
    ∃ d amt w1 s out, funds = [(d, amt)] ∧ snd ≠ w.self ∧ w.bankSend snd w.self d amt = some w1 ∧
      execTransfer w.st blk msg (.native d) amt snd = .ok (s, out) ∧ w' = { w1 with st := s } ∧
      o = { sent := [out] } := by
  simp only [World.exec] at h
  simp at h
  obtain ⟨hself, w1, hw1, s, out, hs, rfl, rfl⟩ := h
  split at hw1
  · rename_i d amt
    split at hw1
    · simp at hw1
    · split at hw1
      · rename_i w1' hb
        simp at hw1; subst hw1
        have e := (bankSend_frame hb).1
        rw [e] at hs
        simp [execTransferNative] at hs
        exact ⟨d, amt, w1', s, out, rfl, hself, hb, hs, rfl, rfl⟩
      · simp at hw1
  · simp at hw1; subst hw1; simp [execTransferNative] at hs
  · simp at hw1

theorem exec_sendCw20_spec {w w' : World} {blk : Block} {snd token : Addr} {amt : Nat}
    {msg : Option TransferMsg} {o : Outcome} (h : w.exec blk (.sendCw20 snd token amt msg) = .ok (w', o)) :
    ∃ w1 m s out, snd ≠ w.self ∧ w.tokens.contains token = true ∧ w.tokSend token snd w.self amt = some w1 ∧
      msg = some m ∧ execTransfer w.st blk m (.cw20 token) amt snd = .ok (s, out) ∧ w' = { w1 with st := s } ∧
      o = { sent := [out] } := by
  simp only [World.exec] at h
  simp at h
  obtain ⟨hself, htok, w1, hw1, s, out, hs, rfl, rfl⟩ := h
  split at hw1
  · rename_i w1' hb
    simp at hw1; subst hw1
    rw [(tokSend_frame hb).1] at hs
    unfold execReceive at hs
    simp at hs
    split at hs
    · simp at hs
    · rename_i m
      simp at hs
      exact ⟨w1', m, s, out, hself, by simpa using htok, hb, rfl, hs, rfl, rfl⟩
  · simp at hw1

theorem exec_hook_spec {w w' : World} {blk : Block} {snd : Addr} {funds : List (String × Nat)} {sender : AddrArg}
    {amt : Nat} {msg : Option TransferMsg} {o : Outcome}
    (h : w.exec blk (.hook snd funds sender amt msg) = .ok (w', o)) :
    ∃ m s out, w.tokens.contains snd = false ∧ msg = some m ∧
      execTransfer w.st blk m (.cw20 snd) amt sender.text = .ok (s, out) ∧ w' = { w with st := s } ∧
      o = { sent := [out] } := by
  simp only [World.exec] at h
  simp at h
  obtain ⟨htok, _, s, out, hs, rfl, rfl⟩ := h
  unfold execReceive at hs
  simp at hs
  obtain ⟨_, hs⟩ := hs
  split at hs
  · simp at hs
  · rename_i m
    simp at hs
    exact ⟨m, s, out, by simpa using htok, rfl, hs.2, rfl, rfl⟩

/-- A failed send (error acknowledgement or timeout): the books are reduced, then the refund either
goes out or is swallowed. -/
theorem exec_ack_cases {w w' : World} {blk : Block} {chan : String} {data : Option Packet} {ackOk : Option Bool}
    {sv tv f : Bool} {o : Outcome} (h : w.exec blk (.ack chan data ackOk sv tv f) = .ok (w', o)) :
    (ackOk = some true ∧ w' = w ∧ o.ack = none ∧ o.sub = none) ∨
    (ackOk = some false ∧ ∃ s1 sub, onPacketFailure w.st chan data tv = .ok (s1, sub) ∧ o.sub = some sub ∧
      ((({ w with st := s1 } : World).payout sub sv f = some w' ∧ o.ack = none) ∨
       (({ w with st := s1 } : World).payout sub sv f = none ∧ w' = { w with st := s1 } ∧ o.ack = some .error))) := by
  simp only [World.exec] at h
  simp at h
  obtain ⟨s, sub, hs, w1, d, hd, rfl, rfl⟩ := h
  unfold ibcPacketAck at hs
  split at hs
  · simp at hs
  · split at hs
    · simp at hs
    · simp at hs
      obtain ⟨rfl, rfl⟩ := hs
      simp [World.dispatch] at hd
      obtain ⟨rfl, rfl⟩ := hd
      exact Or.inl ⟨rfl, rfl, rfl, rfl⟩
  · simp at hs
    obtain ⟨s1, sub1, h1, rfl, rfl⟩ := hs
    right
    refine ⟨rfl, s1, sub1, h1, rfl, ?_⟩
    obtain ⟨_, _, _, _, _, _, _, _, hid⟩ := onPacketFailure_spec h1
    rcases dispatch_failure_cases hid hd with ⟨hp, rfl⟩ | ⟨hp, rfl, rfl⟩
    · exact Or.inl ⟨hp, rfl⟩
    · exact Or.inr ⟨hp, rfl, rfl⟩

theorem exec_timeout_cases {w w' : World} {blk : Block} {chan : String} {data : Option Packet}
    {sv tv f : Bool} {o : Outcome} (h : w.exec blk (.timeout chan data sv tv f) = .ok (w', o)) :
    ∃ s1 sub, onPacketFailure w.st chan data tv = .ok (s1, sub) ∧ o.sub = some sub ∧
      ((({ w with st := s1 } : World).payout sub sv f = some w' ∧ o.ack = none) ∨
       (({ w with st := s1 } : World).payout sub sv f = none ∧ w' = { w with st := s1 } ∧ o.ack = some .error)) := by
  simp only [World.exec] at h
  simp at h
  obtain ⟨s, sub, hs, w1, d, hd, rfl, rfl⟩ := h
  simp [ibcPacketTimeout] at hs
  obtain ⟨s1, sub1, h1, rfl, rfl⟩ := hs
  refine ⟨s1, sub1, h1, rfl, ?_⟩
  obtain ⟨_, _, _, _, _, _, _, _, hid⟩ := onPacketFailure_spec h1
  rcases dispatch_failure_cases hid hd with ⟨hp, rfl⟩ | ⟨hp, rfl, rfl⟩
  · exact Or.inl ⟨hp, rfl⟩
  · exact Or.inr ⟨hp, rfl, rfl⟩

theorem payout_frame {w w' : World} {sub : SubMsg} {tv f : Bool} (h : w.payout sub tv f = some w') :
    w'.st = w.st ∧ w'.self = w.self ∧ w'.tokens = w.tokens ∧ w'.faulty = w.faulty := by
  unfold World.payout at h
  split at h
  · split at h
    · simp at h
    · have := bankSend_frame h; exact ⟨this.1, this.2.2.1, this.2.2.2.1, this.2.2.2.2⟩
  · split at h
    · simp at h
    · have := tokSend_frame h; exact ⟨this.1, this.2.2.1, this.2.2.2.1, this.2.2.2.2⟩


/-- A successful `ibc_channel_open` writes nothing and emits nothing. -/
theorem exec_chanOpen {w w' : World} {blk : Block} {v : String} {cv : Option String} {ord : Bool} {o : Outcome}
    (h : w.exec blk (.chanOpen v cv ord) = .ok (w', o)) : w' = w ∧ o = {} := by
  simp only [World.exec, Res.bind_ok] at h
  obtain ⟨_, _, h⟩ := h
  simp at h
  exact ⟨h.1.symm, h.2.symm⟩

/-- `ibc_channel_close` never succeeds. -/
theorem exec_chanClose {w w' : World} {blk : Block} {id : String} {o : Outcome}
    (h : w.exec blk (.chanClose id) = .ok (w', o)) : False := by
  simp [World.exec, ibcChannelClose, bind, Except.bind] at h

/-- Governance ops and channel handshakes touch neither the books nor any balance. -/
theorem exec_plain_frame {w w' : World} {blk : Block} {op : Op} {o : Outcome} (h : w.exec blk op = .ok (w', o))
    (hop : (∃ id v cv ord peer, op = .connect id v cv ord peer) ∨ (∃ snd c g, op = .allow snd c g) ∨ (∃ snd a, op = .updateAdmin snd a)) :
    w'.st.chan = w.st.chan ∧ w'.bank = w.bank ∧ w'.tok = w.tok ∧ w'.self = w.self ∧ w'.tokens = w.tokens ∧
    w'.st.version = w.st.version ∧ o.ack = none ∧ o.sub = none ∧ o.sent = [] := by
  rcases hop with ⟨id, v, cv, ord, peer, rfl⟩ | ⟨snd, c, g, rfl⟩ | ⟨snd, a, rfl⟩
  · simp [World.exec, ibcChannelConnect] at h
    obtain ⟨s, ⟨_, _, rfl⟩, rfl, rfl⟩ := h
    exact ⟨rfl, rfl, rfl, rfl, rfl, rfl, rfl, rfl, rfl⟩
  · simp only [World.exec] at h
    simp at h
    obtain ⟨s, hs, rfl, rfl⟩ := h
    simp [execAllow] at hs
    obtain ⟨_, _, _, rfl⟩ := hs
    exact ⟨rfl, rfl, rfl, rfl, rfl, rfl, rfl, rfl, rfl⟩
  · simp only [World.exec] at h
    simp at h
    obtain ⟨s, hs, rfl, rfl⟩ := h
    simp [execUpdateAdmin] at hs
    obtain ⟨_, _, rfl⟩ := hs
    exact ⟨rfl, rfl, rfl, rfl, rfl, rfl, rfl, rfl, rfl⟩

theorem exec_migrate_frame {w w' : World} {blk : Block} {g : Option Nat} {o : Outcome}
    (h : w.exec blk (.migrate g) = .ok (w', o)) :
    migrate w.st g w.holdings = .ok w'.st ∧ w'.bank = w.bank ∧ w'.tok = w.tok ∧ w'.self = w.self ∧ w'.tokens = w.tokens ∧
    o.ack = none ∧ o.sub = none ∧ o.sent = [] := by
  simp [World.exec] at h
  obtain ⟨s, hs, rfl, rfl⟩ := h
  exact ⟨hs, rfl, rfl, rfl, rfl, rfl, rfl, rfl⟩

/-! ## Ghost ledgers -/

/-- Ghost ledgers per (channel, denomination) and the set of packets in flight. -/
structure Ghost where
  /-- Σ amounts of accepted transfers (what a migration books as outstanding counts as sent) -/
  sent : Key → Nat
  /-- Σ amounts of sends that failed (error acknowledgement) or timed out -/
  failed : Key → Nat
  /-- Σ amounts redeemed by successfully acknowledged incoming packets -/
  redeemed : Key → Nat
  /-- Σ tokens that actually left the contract for this key: redemptions and refunds that went out -/
  paidOut : Key → Nat
  /-- Σ refunds whose sub-call failed (books reduced, tokens stay in escrow) -/
  swallowed : Key → Nat
  /-- packets sent and not yet acknowledged / timed out -/
  inflight : List (String × Packet)

def bump (f : Key → Nat) (k : Key) (n : Nat) : Key → Nat := fun k' => if k' = k then f k' + n else f k'

@[simp] theorem bump_apply (f : Key → Nat) (k k' : Key) (n : Nat) :
    bump f k n k' = if k' = k then f k' + n else f k' := rfl

/-- Ghosts of a fresh start: everything outstanding counts as sent, nothing else happened. -/
def Ghost.init (w : World) : Ghost :=
  { sent := outAt w.st.chan, failed := fun _ => 0, redeemed := fun _ => 0, paidOut := fun _ => 0,
    swallowed := fun _ => 0, inflight := [] }

/-- IBC core delivers at most one acknowledgement or timeout per sent packet, with the original data. -/
def admissible (g : Ghost) : Op → Bool
  | .ack chan (some p) _ _ _ _ => g.inflight.contains (chan, p)
  | .ack _ none _ _ _ _ => false
  | .timeout chan (some p) _ _ _ => g.inflight.contains (chan, p)
  | .timeout _ none _ _ _ => false
  | _ => true

def Ghost.failure (g : Ghost) (chan : String) (p : Packet) (o : Outcome) : Ghost :=
  let k : Key := (chan, p.denom)
  let g := { g with failed := bump g.failed k p.amount, inflight := g.inflight.erase (chan, p) }
  match o.ack with
  | none => { g with paidOut := bump g.paidOut k p.amount }
  | some _ => { g with swallowed := bump g.swallowed k p.amount }

/-- Ghost update after a successful transaction. -/
def Ghost.update (g : Ghost) (w' : World) (op : Op) (o : Outcome) : Ghost :=
  match op with
  | .transferNative .. | .sendCw20 .. | .hook .. =>
    (match o.sent with
     | [out] => { g with sent := bump g.sent (out.channel, out.packet.denom) out.packet.amount,
                         inflight := (out.channel, out.packet) :: g.inflight }
     | _ => g)
  | .recv p _ _ _ =>
    (match o.ack, o.sub with
     | some .success, some sub =>
       { g with redeemed := bump g.redeemed (p.destChan, sub.denom) sub.amount,
                paidOut := bump g.paidOut (p.destChan, sub.denom) sub.amount }
     | _, _ => g)
  | .ack chan (some p) (some false) _ _ _ => g.failure chan p o
  | .ack chan (some p) (some true) _ _ _ => { g with inflight := g.inflight.erase (chan, p) }
  | .timeout chan (some p) _ _ _ => g.failure chan p o
  -- a migration re-baselines: whatever it books as outstanding counts as sent
  | .migrate _ => { g with sent := fun k => outAt w'.st.chan k + g.failed k + g.redeemed k }
  | _ => g

def stepG (wg : World × Ghost) (blk : Block) (op : Op) : World × Ghost :=
  if admissible wg.2 op then
    match wg.1.exec blk op with
    | .ok (w', o) => (w', wg.2.update w' op o)
    | .error _ => wg
  else wg

/-- Histories with ghosts. -/
def runG (wg : World × Ghost) (ops : List (Block × Op)) : World × Ghost :=
  ops.foldl (fun wg o => stepG wg o.1 o.2) wg

/-- The accounting invariant: `outstanding + failed + redeemed = sent` and every reduction of the
books is matched by tokens that left or by a swallowed refund. -/
def LedgerInv (wg : World × Ghost) : Prop :=
  (∀ k, outAt wg.1.st.chan k + wg.2.failed k + wg.2.redeemed k = wg.2.sent k) ∧
  (∀ k, wg.2.paidOut k + wg.2.swallowed k = wg.2.failed k + wg.2.redeemed k)

theorem ledgerInv_init (w : World) : LedgerInv (w, Ghost.init w) := by
  constructor <;> intro k <;> simp [Ghost.init]


theorem undoReduce_spec {m m' : ChanMap} {c : String} {d : Denom} {amt : Nat}
    (h : undoReduce m c d amt = .ok m') :
    (∀ k, outAt m' k = if k = (c, d) then outAt m k + amt else outAt m k) ∧ (∀ k, totAt m' k = totAt m k) := by
  simp [undoReduce] at h
  obtain ⟨h1, rfl⟩ := h
  constructor
  · intro k
    by_cases hk : k = (c, d)
    · subst hk; simp [outAt]; cases hg : AMap.get? m (c, d) <;> simp
    · simp [outAt, hk, AMap.get?_set_ne _ _ _ _ (Ne.symm hk)]
  · intro k
    by_cases hk : k = (c, d)
    · subst hk; simp [totAt]; cases hg : AMap.get? m (c, d) <;> simp
    · simp [totAt, AMap.get?_set_ne _ _ _ _ (Ne.symm hk)]

/-- Effect of a successful transaction on the books, as a pointwise statement about `outAt`. -/
theorem exec_ledger {w w' : World} {g : Ghost} {blk : Block} {op : Op} {o : Outcome}
    (hi : LedgerInv (w, g)) (h : w.exec blk op = .ok (w', o)) : LedgerInv (w', g.update w' op o) := by
  obtain ⟨h12, hj⟩ := hi
  simp only at h12 hj
  cases op with
  | connect id v cv ord peer =>
    have f := exec_plain_frame h (Or.inl ⟨id, v, cv, ord, peer, rfl⟩)
    simp only [LedgerInv, Ghost.update, f.1]; exact ⟨h12, hj⟩
  | chanOpen v cv ord =>
    obtain ⟨rfl, rfl⟩ := exec_chanOpen h
    simp only [LedgerInv, Ghost.update]; exact ⟨h12, hj⟩
  | chanClose id => exact (exec_chanClose h).elim
  | allow snd c gg =>
    have f := exec_plain_frame h (Or.inr (Or.inl ⟨snd, c, gg, rfl⟩))
    simp only [LedgerInv, Ghost.update, f.1]; exact ⟨h12, hj⟩
  | updateAdmin snd a =>
    have f := exec_plain_frame h (Or.inr (Or.inr ⟨snd, a, rfl⟩))
    simp only [LedgerInv, Ghost.update, f.1]; exact ⟨h12, hj⟩
  | migrate gg =>
    simp only [LedgerInv, Ghost.update]
    exact ⟨fun k => trivial, hj⟩
  | transferNative snd funds msg =>
    obtain ⟨d, amt, w1, s, out, _, _, _, hs, rfl, rfl⟩ := exec_transferNative_spec h
    obtain ⟨ch, hinc, rfl, _, _, _, _, rfl, _⟩ := execTransfer_spec hs
    obtain ⟨ho, _, _⟩ := increaseBalance_spec hinc
    simp only [LedgerInv, Ghost.update]
    refine ⟨fun k => ?_, hj⟩
    simp only [ho k, bump_apply]
    split <;> have := h12 k <;> omega
  | sendCw20 snd token amt msg =>
    obtain ⟨w1, m, s, out, _, _, _, _, hs, rfl, rfl⟩ := exec_sendCw20_spec h
    obtain ⟨ch, hinc, rfl, _, _, _, _, rfl, _⟩ := execTransfer_spec hs
    obtain ⟨ho, _, _⟩ := increaseBalance_spec hinc
    simp only [LedgerInv, Ghost.update]
    refine ⟨fun k => ?_, hj⟩
    simp only [ho k, bump_apply]
    split <;> have := h12 k <;> omega
  | hook snd funds sender amt msg =>
    obtain ⟨m, s, out, _, _, hs, rfl, rfl⟩ := exec_hook_spec h
    obtain ⟨ch, hinc, rfl, _, _, _, _, rfl, _⟩ := execTransfer_spec hs
    obtain ⟨ho, _, _⟩ := increaseBalance_spec hinc
    simp only [LedgerInv, Ghost.update]
    refine ⟨fun k => ?_, hj⟩
    simp only [ho k, bump_apply]
    split <;> have := h12 k <;> omega
  | recv p rv tv f =>
    rcases exec_recv_cases h with ⟨_, rfl, ha, hsub⟩ | ⟨s1, sub, hd, hsub, hc⟩
    · simp only [LedgerInv, Ghost.update, ha, hsub]; exact ⟨h12, hj⟩
    · obtain ⟨amt, d, ch, _, _, hred, rfl, _, hsa, hsd, _, _⟩ := doReceive_spec hd
      obtain ⟨cs, _, hle, _, ho, _⟩ := reduceBalance_spec hred
      have hle' : amt ≤ outAt w.st.chan (p.destChan, d) := by simp [outAt, *]
      rcases hc with ⟨hp, ha⟩ | ⟨hp, ha, ra, ch2, hra, hundo, rfl⟩
      · have e := (payout_frame hp).1
        simp only [LedgerInv, Ghost.update, ha, hsub, e, hsa, hsd]
        constructor
        · intro k
          simp only [ho k, bump_apply]
          split
          · rename_i hk; subst hk; have := h12 (p.destChan, d); omega
          · exact h12 k
        · intro k
          simp only [bump_apply]
          split <;> have := hj k <;> omega
      · simp at hra; subst hra
        obtain ⟨hu, _⟩ := undoReduce_spec hundo
        simp only [LedgerInv, Ghost.update, ha, hsub]
        refine ⟨fun k => ?_, hj⟩
        simp only [hu k, ho k]
        split
        · rename_i hk; subst hk; have := h12 (p.destChan, d); omega
        · exact h12 k
  | ack chan data ackOk sv tv f =>
    rcases exec_ack_cases h with ⟨rfl, rfl, ha, hsub⟩ | ⟨rfl, s1, sub, hf, hsub, hc⟩
    · cases data <;> simp only [LedgerInv, Ghost.update] <;> exact ⟨h12, hj⟩
    · obtain ⟨p, ch, rfl, hred, rfl, _, _, _, _⟩ := onPacketFailure_spec hf
      obtain ⟨cs, _, hle, _, ho, _⟩ := reduceBalance_spec hred
      have hle' : p.amount ≤ outAt w.st.chan (chan, p.denom) := by simp [outAt, *]
      have hst : w'.st.chan = ch := by
        rcases hc with ⟨hp, _⟩ | ⟨_, rfl, _⟩
        · rw [(payout_frame hp).1]
        · rfl
      have hack : o.ack = none ∨ ∃ a, o.ack = some a := by
        rcases hc with ⟨_, ha⟩ | ⟨_, _, ha⟩
        · exact Or.inl ha
        · exact Or.inr ⟨_, ha⟩
      simp only [LedgerInv, Ghost.update, Ghost.failure, hst]
      rcases hack with ha | ⟨a, ha⟩ <;> simp only [ha]
      · constructor
        · intro k; simp only [ho k, bump_apply]
          split
          · rename_i hk; subst hk; have := h12 (chan, p.denom); omega
          · exact h12 k
        · intro k; simp only [bump_apply]; split <;> have := hj k <;> omega
      · constructor
        · intro k; simp only [ho k, bump_apply]
          split
          · rename_i hk; subst hk; have := h12 (chan, p.denom); omega
          · exact h12 k
        · intro k; simp only [bump_apply]; split <;> have := hj k <;> omega
  | timeout chan data sv tv f =>
    obtain ⟨s1, sub, hf, hsub, hc⟩ := exec_timeout_cases h
    obtain ⟨p, ch, rfl, hred, rfl, _, _, _, _⟩ := onPacketFailure_spec hf
    obtain ⟨cs, _, hle, _, ho, _⟩ := reduceBalance_spec hred
    have hle' : p.amount ≤ outAt w.st.chan (chan, p.denom) := by simp [outAt, *]
    have hst : w'.st.chan = ch := by
      rcases hc with ⟨hp, _⟩ | ⟨_, rfl, _⟩
      · rw [(payout_frame hp).1]
      · rfl
    have hack : o.ack = none ∨ ∃ a, o.ack = some a := by
      rcases hc with ⟨_, ha⟩ | ⟨_, _, ha⟩
      · exact Or.inl ha
      · exact Or.inr ⟨_, ha⟩
    simp only [LedgerInv, Ghost.update, Ghost.failure, hst]
    rcases hack with ha | ⟨a, ha⟩ <;> simp only [ha]
    · constructor
      · intro k; simp only [ho k, bump_apply]
        split
        · rename_i hk; subst hk; have := h12 (chan, p.denom); omega
        · exact h12 k
      · intro k; simp only [bump_apply]; split <;> have := hj k <;> omega
    · constructor
      · intro k; simp only [ho k, bump_apply]
        split
        · rename_i hk; subst hk; have := h12 (chan, p.denom); omega
        · exact h12 k
      · intro k; simp only [bump_apply]; split <;> have := hj k <;> omega


theorem stepG_ledger {wg : World × Ghost} (blk : Block) (op : Op) (hi : LedgerInv wg) : LedgerInv (stepG wg blk op) := by
  unfold stepG
  split
  · split
    · rename_i w' o h; exact exec_ledger (w := wg.1) (g := wg.2) hi h
    · exact hi
  · exact hi

theorem runG_ledger {wg : World × Ghost} (ops : List (Block × Op)) (hi : LedgerInv wg) : LedgerInv (runG wg ops) := by
  induction ops generalizing wg with
  | nil => exact hi
  | cons op rest ih => exact ih (stepG_ledger op.1 op.2 hi)

theorem bankSend_spec {w w' : World} {src dst : Addr} {d : String} {amt : Nat} (h : w.bankSend src dst d amt = some w') :
    amt ≤ w.bankBal src d ∧ ∀ a x, w'.bankBal a x =
      if (dst, d) = (a, x) then (if (src, d) = (a, x) then w.bankBal a x - amt else w.bankBal a x) + amt
      else if (src, d) = (a, x) then w.bankBal a x - amt else w.bankBal a x := by
  unfold World.bankSend at h
  split at h
  · simp at h
  · rename_i hlt
    simp at h; subst h
    refine ⟨by omega, ?_⟩
    intro a x
    simp only [World.bankBal, AMap.get?_set]
    by_cases h1 : (dst, d) = (a, x)
    · cases h1
      by_cases h2 : (src, d) = (dst, d)
      · cases h2; simp
      · simp [h2]
    · by_cases h2 : (src, d) = (a, x)
      · cases h2; simp [h1]
      · simp [h1, h2]

theorem tokSend_spec {w w' : World} {t src dst : Addr} {amt : Nat} (h : w.tokSend t src dst amt = some w') :
    amt ≤ w.tokBal t src ∧ ∀ t' a, w'.tokBal t' a =
      if (t, dst) = (t', a) then (if (t, src) = (t', a) then w.tokBal t' a - amt else w.tokBal t' a) + amt
      else if (t, src) = (t', a) then w.tokBal t' a - amt else w.tokBal t' a := by
  unfold World.tokSend at h
  split at h
  · simp at h
  · rename_i hlt
    simp at h; subst h
    refine ⟨by omega, ?_⟩
    intro t' a
    simp only [World.tokBal, AMap.get?_set]
    by_cases h1 : (t, dst) = (t', a)
    · cases h1
      by_cases h2 : (t, src) = (t, dst)
      · cases h2; simp
      · simp [h2]
    · by_cases h2 : (t, src) = (t', a)
      · cases h2; simp [h1]
      · simp [h1, h2]

/-- `undo_reduce` after `reduce` gives back the very same map. -/
theorem undoReduce_reduce_eq {m m' m'' : ChanMap} {c : String} {d : Denom} {amt : Nat}
    (h : reduceBalance m c d amt = .ok m') (h2 : undoReduce m' c d amt = .ok m'') : m'' = m := by
  obtain ⟨cs, hg, hle, rfl, _, _⟩ := reduceBalance_spec h
  simp [undoReduce] at h2
  obtain ⟨_, rfl⟩ := h2
  have e : cs.outstanding - amt + amt = cs.outstanding := by omega
  rw [AMap.set_set, e]
  exact AMap.set_get_self m (c, d) cs hg


/-! ## Sum over channels of the outstanding balance of one denomination -/

/-- Σ over all channel-state entries of denomination `d` of the outstanding balance. -/
def sumDenom (m : ChanMap) (d : Denom) : Nat :=
  match m with
  | [] => 0
  | (k, cs) :: rest => (if k.2 = d then cs.outstanding else 0) + sumDenom rest d

theorem sumDenom_set (m : ChanMap) (k : Key) (v : ChanState) (d : Denom) :
    sumDenom (m.set k v) d + (if k.2 = d then outAt m k else 0) =
    sumDenom m d + (if k.2 = d then v.outstanding else 0) := by
  induction m with
  | nil => simp [AMap.set, sumDenom, outAt]
  | cons e rest ih =>
    obtain ⟨k', cs⟩ := e
    by_cases h : k' = k
    · subst h
      simp [AMap.set, sumDenom, outAt, AMap.get?]
      split <;> omega
    · have e1 : outAt ((k', cs) :: rest) k = outAt rest k := by simp [outAt, AMap.get?, h]
      simp only [AMap.set, h, if_false, sumDenom, e1]
      omega

theorem outAt_le_sumDenom (m : ChanMap) (k : Key) : outAt m k ≤ sumDenom m k.2 := by
  induction m with
  | nil => simp [outAt]
  | cons e rest ih =>
    obtain ⟨k', cs⟩ := e
    by_cases h : k' = k
    · subst h; simp [outAt, AMap.get?, sumDenom]
    · have e1 : outAt ((k', cs) :: rest) k = outAt rest k := by simp [outAt, AMap.get?, h]
      rw [e1]; simp only [sumDenom]; omega

end CwPlus.Ics20
