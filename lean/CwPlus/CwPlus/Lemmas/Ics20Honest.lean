import CwPlus.Lemmas.Ics20Ledger
/-!
# Packets in flight and the honest counterparty (cw20-ics20)

Part 1 relates the ghost `g.inflight` of `runG` to the ledgers: for a current-version contract, on every
admissible history, `failed + ackedOk + Σ in flight + sent₀ = sent` per channel and denomination
(`runG_inflight`), hence `outstanding + redeemed = outstanding₀ + ackedOk + Σ in flight`.

Part 2 is an explicit model of an **honest counterparty chain**.  A history is annotated with the
counterparty's own events: `HEv.deliver chan p` = "the counterparty received the packet `p` we sent on
`chan`, accepted it and minted vouchers" (nothing happens on our side).  The counterparty state
(`CpState`) splits the packets in flight into `pending` (not accepted by the counterparty: they may still
time out or come back with an error acknowledgement) and `delivered` (accepted; the success
acknowledgement is on its way), and counts the vouchers it minted per (our channel, denomination).
`honestEv` says what an honest counterparty and IBC core do:

* a success acknowledgement only for a delivered packet, an error acknowledgement or a timeout only for a
  pending one (IBC core proves non-receipt for a timeout), each with the original packet data and a
  decodable acknowledgement;
* vouchers come back (`Op.recv`) only as far as they were minted: `redeemed + amount ≤ minted` for the
  packet's (destination channel, denomination) — note that vouchers may come back *before* the success
  acknowledgement of the transfer that minted them has been relayed;
* everything else (transfers by anybody, governance, migrations, handshakes, fault flags) is unconstrained.

`HInv` is the invariant of honest histories of a current-version contract; `hinv_pending_covered` is its
consequence: every pending packet's amount is covered by the channel balance of its denomination, so its
refund is never refused for lack of channel balance.
-/
namespace CwPlus.Ics20
open CwPlus

/-! ## Sums over packet lists -/

/-- Σ amounts of the packets of `l` sent on channel `k.1` with denomination `k.2`. -/
def pktSum : List (String × Packet) → Key → Nat
  | [], _ => 0
  | e :: rest, k => (if k = (e.1, e.2.denom) then e.2.amount else 0) + pktSum rest k

/-- Σ amounts of the packets in flight on a channel for a denomination. -/
def inflightSum (g : Ghost) (k : Key) : Nat := pktSum g.inflight k

theorem pktSum_erase {l : List (String × Packet)} {a : String × Packet} (h : a ∈ l) (k : Key) :
    pktSum (l.erase a) k + (if k = (a.1, a.2.denom) then a.2.amount else 0) = pktSum l k := by
  induction l with
  | nil => cases h
  | cons b rest ih =>
    by_cases hb : b = a
    · subst hb; rw [List.erase_cons_head]; simp only [pktSum]; omega
    · have hne : ¬ (b == a) = true := by simpa using hb
      rw [List.erase_cons_tail hne]
      have hm : a ∈ rest := by
        cases h with
        | head => exact absurd rfl hb
        | tail _ h => exact h
      have := ih hm
      simp only [pktSum]; omega

theorem pktSum_mem {l : List (String × Packet)} {a : String × Packet} (h : a ∈ l) :
    a.2.amount ≤ pktSum l (a.1, a.2.denom) := by
  have := pktSum_erase h (a.1, a.2.denom)
  simp at this; omega

/-- What `Ghost.failure` does to the fields the ledgers read. -/
theorem failure_fields (g : Ghost) (chan : String) (p : Packet) (o : Outcome) :
    (g.failure chan p o).sent = g.sent ∧ (g.failure chan p o).failed = bump g.failed (chan, p.denom) p.amount ∧
    (g.failure chan p o).redeemed = g.redeemed ∧ (g.failure chan p o).inflight = g.inflight.erase (chan, p) := by
  unfold Ghost.failure
  cases o.ack <;> exact ⟨rfl, rfl, rfl, rfl⟩

/-! ## Part 1: `g.inflight` and the ledgers on admissible histories -/

/-- The amount a processed success acknowledgement confirms on key `k`. -/
def ackedBy (op : Op) (k : Key) : Nat :=
  match op with
  | .ack chan (some p) (some true) _ _ _ => if k = (chan, p.denom) then p.amount else 0
  | _ => 0

/-- Σ amounts of the packets whose success acknowledgement was processed along `runG`. -/
def ackedOf (wg : World × Ghost) : List (Block × Op) → Key → Nat
  | [], _ => 0
  | (blk, op) :: rest, k =>
    (if admissible wg.2 op then
      (match wg.1.exec blk op with
       | .ok _ => ackedBy op k
       | .error _ => 0)
     else 0) + ackedOf (stepG wg blk op) rest k

/-- One admissible transaction of a current-version contract: the packets in flight, the failures and the
success acknowledgements account for exactly what the transaction escrowed. -/
theorem update_inflight_delta {w w' : World} {g : Ghost} {blk : Block} {op : Op} {o : Outcome}
    (ha : admissible g op = true) (h : w.exec blk op = .ok (w', o)) (k : Key) :
    (g.update w' op o).failed k + ackedBy op k + pktSum (g.update w' op o).inflight k
      = escrowedBy op o k + g.failed k + pktSum g.inflight k := by
  cases op with
  | migrate gas => simp [Ghost.update, ackedBy, escrowedBy]
  | connect id v cv ord peer => simp [Ghost.update, ackedBy, escrowedBy]
  | chanOpen v cv ord => simp [Ghost.update, ackedBy, escrowedBy]
  | chanClose id => simp [Ghost.update, ackedBy, escrowedBy]
  | allow snd c gg => simp [Ghost.update, ackedBy, escrowedBy]
  | updateAdmin snd a => simp [Ghost.update, ackedBy, escrowedBy]
  | transferNative snd funds msg =>
    obtain ⟨d, amt, w1, s, out, _, _, _, _, _, rfl⟩ := exec_transferNative_spec h
    simp only [Ghost.update, escrowedBy, ackedBy, pktSum]; omega
  | sendCw20 snd token amt msg =>
    obtain ⟨w1, m, s, out, _, _, _, _, _, _, rfl⟩ := exec_sendCw20_spec h
    simp only [Ghost.update, escrowedBy, ackedBy, pktSum]; omega
  | hook snd funds sender amt msg =>
    obtain ⟨m, s, out, _, _, _, _, rfl⟩ := exec_hook_spec h
    simp only [Ghost.update, escrowedBy, ackedBy, pktSum]; omega
  | recv p rv tv f =>
    simp only [Ghost.update, escrowedBy, ackedBy]; split <;> simp
  | ack chan data ackOk sv tv f =>
    cases data with
    | none => simp [admissible] at ha
    | some p =>
      have hm : (chan, p) ∈ g.inflight := by simpa [admissible] using ha
      have he := pktSum_erase hm k
      cases ackOk with
      | none => simp [Ghost.update, ackedBy, escrowedBy]
      | some b =>
        cases b
        · obtain ⟨_, e2, _, e4⟩ := failure_fields g chan p o
          simp only [Ghost.update, escrowedBy, ackedBy, e2, e4, bump_apply]
          split <;> simp_all <;> omega
        · simp only [Ghost.update, escrowedBy, ackedBy]
          split <;> simp_all <;> omega
  | timeout chan data sv tv f =>
    cases data with
    | none => simp [admissible] at ha
    | some p =>
      have hm : (chan, p) ∈ g.inflight := by simpa [admissible] using ha
      have he := pktSum_erase hm k
      obtain ⟨_, e2, _, e4⟩ := failure_fields g chan p o
      simp only [Ghost.update, escrowedBy, ackedBy, e2, e4, bump_apply]
      split <;> simp_all <;> omega

theorem stepG_fst_postV3S {wg : World × Ghost} (blk : Block) (op : Op) (hv : PostV3S wg.1.st) :
    PostV3S (stepG wg blk op).1.st := by
  unfold stepG
  split
  · split
    · rename_i w' o h; exact exec_postV3S hv h
    · exact hv
  · exact hv

/-- **In-flight accounting** on every admissible history of a current-version contract (migrations
anywhere): per channel and denomination, what was sent is what failed, what was acknowledged with success
and what is still in flight (difference form, from any consistent start). -/
theorem runG_inflight {wg : World × Ghost} (ops : List (Block × Op)) (hv : PostV3S wg.1.st) (hi : LedgerInv wg) (k : Key) :
    (runG wg ops).2.failed k + ackedOf wg ops k + inflightSum (runG wg ops).2 k + wg.2.sent k
      = (runG wg ops).2.sent k + wg.2.failed k + inflightSum wg.2 k := by
  induction ops generalizing wg with
  | nil => simp [runG, ackedOf]; omega
  | cons op rest ih =>
    obtain ⟨blk, op⟩ := op
    have := ih (wg := stepG wg blk op) (stepG_fst_postV3S blk op hv) (stepG_ledger blk op hi)
    simp only [runG, List.foldl_cons] at this ⊢
    simp only [ackedOf]
    have hstep : (stepG wg blk op).2.failed k
        + (if admissible wg.2 op then (match wg.1.exec blk op with | .ok _ => ackedBy op k | .error _ => 0) else 0)
        + inflightSum (stepG wg blk op).2 k + wg.2.sent k
        = (stepG wg blk op).2.sent k + wg.2.failed k + inflightSum wg.2 k := by
      unfold stepG
      cases ha : admissible wg.2 op with
      | false => simp; omega
      | true =>
        simp only [if_true]
        cases hx : wg.1.exec blk op with
        | error e => simp; omega
        | ok r =>
          obtain ⟨w', o⟩ := r
          have h1 := update_inflight_delta (g := wg.2) ha hx k
          have h2 := update_sent_postV3 (g := wg.2) hv hi hx k
          simp only [inflightSum]
          omega
    omega

/-! ## Part 2: the honest counterparty -/

/-- An event of an annotated history: a transaction on our chain, or the counterparty accepting a packet
we sent (it mints vouchers; nothing happens on our side). -/
inductive HEv where
  | op (blk : Block) (op : Op)
  | deliver (chan : String) (p : Packet)
  deriving Repr, Inhabited

/-- The transactions of an annotated history (the counterparty's own events erased). -/
def opsOf : List HEv → List (Block × Op)
  | [] => []
  | .op blk op :: rest => (blk, op) :: opsOf rest
  | .deliver _ _ :: rest => opsOf rest

/-- The counterparty's view of the packets we sent. -/
structure CpState where
  /-- sent, not accepted by the counterparty (in transit, or refused by it) -/
  pending : List (String × Packet)
  /-- accepted by the counterparty; the success acknowledgement has not been relayed back yet -/
  delivered : List (String × Packet)
  /-- vouchers minted by the counterparty, per (our channel, denomination) -/
  minted : Key → Nat
  /-- Σ amounts of the success acknowledgements relayed back -/
  acked : Key → Nat

def CpState.init : CpState := ⟨[], [], fun _ => 0, fun _ => 0⟩

/-- Counterparty bookkeeping after a successful transaction on our chain. -/
def CpState.update (c : CpState) (op : Op) (o : Outcome) : CpState :=
  match op with
  | .transferNative .. | .sendCw20 .. | .hook .. =>
    (match o.sent with
     | [out] => { c with pending := (out.channel, out.packet) :: c.pending }
     | _ => c)
  | .ack chan (some p) (some true) _ _ _ =>
    { c with delivered := c.delivered.erase (chan, p), acked := bump c.acked (chan, p.denom) p.amount }
  | .ack chan (some p) (some false) _ _ _ => { c with pending := c.pending.erase (chan, p) }
  | .timeout chan (some p) _ _ _ => { c with pending := c.pending.erase (chan, p) }
  | _ => c

structure HState where
  w : World
  g : Ghost
  c : CpState

def HState.init (w : World) : HState := ⟨w, Ghost.init w, CpState.init⟩

/-- One event (no filter: every transaction is executed). -/
def stepH (x : HState) : HEv → HState
  | .op blk op =>
    (match x.w.exec blk op with
     | .ok (w', o) => ⟨w', x.g.update w' op o, x.c.update op o⟩
     | .error _ => x)
  | .deliver chan p =>
    { x with c := { x.c with pending := x.c.pending.erase (chan, p), delivered := (chan, p) :: x.c.delivered,
                             minted := bump x.c.minted (chan, p.denom) p.amount } }

def runH (x : HState) (evs : List HEv) : HState := evs.foldl stepH x

/-- What an honest counterparty chain (and IBC core) can do in state `x`. -/
def honestEv (x : HState) : HEv → Prop
  | .deliver chan p => (chan, p) ∈ x.c.pending
  | .op _ (.ack chan (some p) (some true) _ _ _) => (chan, p) ∈ x.c.delivered
  | .op _ (.ack chan (some p) (some false) _ _ _) => (chan, p) ∈ x.c.pending
  | .op _ (.ack _ _ _ _ _ _) => False
  | .op _ (.timeout chan (some p) _ _ _) => (chan, p) ∈ x.c.pending
  | .op _ (.timeout _ none _ _ _) => False
  | .op _ (.recv p _ _ _) =>
    ∀ amt port ch d, p.amount = some amt → p.voucher = some (port, ch, d) →
      x.g.redeemed (p.destChan, d) + amt ≤ x.c.minted (p.destChan, d)
  | _ => True

/-- Every event of the history is honest at the point where it happens. -/
def HonestFrom (x : HState) : List HEv → Prop
  | [] => True
  | e :: rest => honestEv x e ∧ HonestFrom (stepH x e) rest

theorem stepH_w (x : HState) (e : HEv) :
    (stepH x e).w = match e with | .op blk op => x.w.step blk op | .deliver _ _ => x.w := by
  cases e with
  | deliver chan p => rfl
  | op blk op =>
    simp only [stepH, World.step]
    split <;> simp_all

/-- The world of an annotated history is the plain history of its transactions. -/
theorem runH_w (x : HState) (evs : List HEv) :
    (runH x evs).w = (opsOf evs).foldl (fun w o => w.step o.1 o.2) x.w := by
  induction evs generalizing x with
  | nil => rfl
  | cons e rest ih =>
    simp only [runH, List.foldl_cons] at ih ⊢
    rw [ih, stepH_w]
    cases e <;> rfl

/-- The invariant of honest histories of a current-version contract (`base` = what was outstanding at the
start). -/
structure HInv (base : Key → Nat) (x : HState) : Prop where
  ledger : LedgerInv (x.w, x.g)
  postV3 : PostV3S x.w.st
  /-- sent = failed + acknowledged + pending + delivered (+ start) -/
  sent_split : ∀ k, x.g.failed k + x.c.acked k + pktSum x.c.pending k + pktSum x.c.delivered k + base k = x.g.sent k
  /-- the counterparty minted exactly what it accepted -/
  minted_eq : ∀ k, x.c.minted k = x.c.acked k + pktSum x.c.delivered k
  /-- only minted vouchers came back -/
  redeemed_le : ∀ k, x.g.redeemed k ≤ x.c.minted k
  /-- the packets in flight are the pending and the delivered ones -/
  inflight_count : ∀ a, x.g.inflight.count a = x.c.pending.count a + x.c.delivered.count a
  /-- no empty packets -/
  pending_pos : ∀ a ∈ x.c.pending, a.2.amount ≠ 0

theorem hinv_init (w : World) (hv : PostV3S w.st) : HInv (outAt w.st.chan) (HState.init w) where
  ledger := ledgerInv_init w
  postV3 := hv
  sent_split := by intro k; simp [HState.init, Ghost.init, CpState.init, pktSum]
  minted_eq := by intro k; simp [HState.init, CpState.init, pktSum]
  redeemed_le := by intro k; simp [HState.init, Ghost.init]
  inflight_count := by intro a; simp [HState.init, Ghost.init, CpState.init]
  pending_pos := by intro a ha; simp [HState.init, CpState.init] at ha

/-- **Coverage**: under the invariant, the channel balance of a denomination is what was outstanding at
the start, plus the pending packets, plus the vouchers minted and not yet returned. -/
theorem hinv_outstanding {base : Key → Nat} {x : HState} (hI : HInv base x) (k : Key) :
    outAt x.w.st.chan k + x.g.redeemed k = base k + pktSum x.c.pending k + x.c.minted k := by
  have h1 := hI.ledger.1 k
  have h2 := hI.sent_split k
  have h3 := hI.minted_eq k
  simp only at h1
  omega

/-- Every pending packet is covered by the channel balance of its denomination, which therefore has an
entry. -/
theorem hinv_pending_covered {base : Key → Nat} {x : HState} (hI : HInv base x) {chan : String} {p : Packet}
    (hm : (chan, p) ∈ x.c.pending) :
    ∃ cs, x.w.st.chan.get? (chan, p.denom) = some cs ∧ p.amount ≤ cs.outstanding := by
  have h1 := hinv_outstanding hI (chan, p.denom)
  have h2 := hI.redeemed_le (chan, p.denom)
  have h3 := pktSum_mem hm
  have h4 := hI.pending_pos _ hm
  simp only at h3 h4
  have h5 : p.amount ≤ outAt x.w.st.chan (chan, p.denom) := by omega
  unfold outAt at h5
  cases hg : x.w.st.chan.get? (chan, p.denom) with
  | none => simp [hg] at h5; omega
  | some cs => simp [hg] at h5; exact ⟨cs, rfl, h5⟩

/-- Under the invariant an honest acknowledgement / timeout is admissible in the sense of `runG`. -/
theorem hinv_honest_admissible {base : Key → Nat} {x : HState} (hI : HInv base x) {blk : Block} {op : Op}
    (hh : honestEv x (.op blk op)) : admissible x.g op = true := by
  have mem_of : ∀ a, (a ∈ x.c.pending ∨ a ∈ x.c.delivered) → a ∈ x.g.inflight := by
    intro a ha
    have := hI.inflight_count a
    rcases ha with ha | ha <;> have := List.count_pos_iff.mpr ha <;> (apply List.count_pos_iff.mp; omega)
  cases op with
  | ack chan data ackOk sv tv f =>
    cases data with
    | none => exact hh.elim
    | some p =>
      cases ackOk with
      | none => exact hh.elim
      | some b =>
        cases b
        · simpa [admissible] using mem_of _ (Or.inl hh)
        · simpa [admissible] using mem_of _ (Or.inr hh)
  | timeout chan data sv tv f =>
    cases data with
    | none => exact hh.elim
    | some p => simpa [admissible] using mem_of _ (Or.inl hh)
  | _ => rfl

/-! ### The invariant is preserved by every honest event -/

theorem count_erase_add {l : List (String × Packet)} {a b : String × Packet} (h : b ∈ l) :
    (l.erase b).count a + (if a = b then 1 else 0) = l.count a := by
  by_cases hab : a = b
  · subst hab
    have := List.count_pos_iff.mpr h
    rw [List.count_erase_self]; simp; omega
  · rw [List.count_erase_of_ne hab]; simp [hab]

theorem count_cons_add (l : List (String × Packet)) (a b : String × Packet) :
    (b :: l).count a = l.count a + (if a = b then 1 else 0) := by
  rw [List.count_cons]
  by_cases hab : a = b
  · subst hab; simp
  · have : ¬ b = a := fun e => hab e.symm
    simp [hab, this]

theorem hinv_mem_inflight {base : Key → Nat} {x : HState} (hI : HInv base x) {a : String × Packet}
    (ha : a ∈ x.c.pending ∨ a ∈ x.c.delivered) : a ∈ x.g.inflight := by
  have := hI.inflight_count a
  rcases ha with ha | ha <;> have := List.count_pos_iff.mpr ha <;> (apply List.count_pos_iff.mp; omega)

/-- The counterparty accepts a pending packet. -/
theorem stepH_deliver_inv {base : Key → Nat} {x : HState} {chan : String} {p : Packet} (hI : HInv base x)
    (hh : (chan, p) ∈ x.c.pending) : HInv base (stepH x (.deliver chan p)) where
  ledger := hI.ledger
  postV3 := hI.postV3
  sent_split := by
    intro k
    have h1 := hI.sent_split k
    have h2 := pktSum_erase hh k
    simp only [stepH, pktSum] at *
    omega
  minted_eq := by
    intro k
    have h1 := hI.minted_eq k
    simp only [stepH, pktSum, bump_apply] at *
    split <;> omega
  redeemed_le := by
    intro k
    have h1 := hI.redeemed_le k
    simp only [stepH, bump_apply] at *
    split <;> omega
  inflight_count := by
    intro a
    have h1 := hI.inflight_count a
    have h2 := count_erase_add (a := a) hh
    have h3 := count_cons_add x.c.delivered a (chan, p)
    simp only [stepH] at *
    omega
  pending_pos := by
    intro a ha
    exact hI.pending_pos a (List.mem_of_mem_erase ha)

/-- A transaction that changes neither `sent`, `failed` nor the packets in flight. -/
theorem hinv_frame {base : Key → Nat} {x : HState} {w' : World} {g' : Ghost} (hI : HInv base x)
    (hl : LedgerInv (w', g')) (hv : PostV3S w'.st) (e1 : ∀ k, g'.sent k = x.g.sent k) (e2 : g'.failed = x.g.failed)
    (e3 : ∀ k, g'.redeemed k ≤ x.c.minted k) (e4 : g'.inflight = x.g.inflight) : HInv base ⟨w', g', x.c⟩ where
  ledger := hl
  postV3 := hv
  sent_split := by intro k; have := hI.sent_split k; simp only [e1 k, e2]; exact this
  minted_eq := hI.minted_eq
  redeemed_le := e3
  inflight_count := by intro a; simp only [e4]; exact hI.inflight_count a
  pending_pos := hI.pending_pos

/-- An accepted transfer: the emitted packet is pending. -/
theorem hinv_transfer {base : Key → Nat} {x : HState} {w' : World} {g' : Ghost} {out : SendOut} (hI : HInv base x)
    (hl : LedgerInv (w', g')) (hv : PostV3S w'.st) (hne : out.packet.amount ≠ 0)
    (e1 : g'.sent = bump x.g.sent (out.channel, out.packet.denom) out.packet.amount) (e2 : g'.failed = x.g.failed)
    (e3 : g'.redeemed = x.g.redeemed) (e4 : g'.inflight = (out.channel, out.packet) :: x.g.inflight) :
    HInv base ⟨w', g', { x.c with pending := (out.channel, out.packet) :: x.c.pending }⟩ where
  ledger := hl
  postV3 := hv
  sent_split := by
    intro k
    have := hI.sent_split k
    simp only [e1, e2, bump_apply, pktSum]
    split <;> omega
  minted_eq := hI.minted_eq
  redeemed_le := by intro k; simp only [e3]; exact hI.redeemed_le k
  inflight_count := by
    intro a
    have h1 := hI.inflight_count a
    have h2 := count_cons_add x.g.inflight a (out.channel, out.packet)
    have h3 := count_cons_add x.c.pending a (out.channel, out.packet)
    simp only [e4]
    omega
  pending_pos := by
    intro a ha
    simp only [List.mem_cons] at ha
    rcases ha with rfl | ha
    · exact hne
    · exact hI.pending_pos a ha

/-- A processed success acknowledgement of a delivered packet. -/
theorem hinv_ackOk {base : Key → Nat} {x : HState} {w' : World} {g' : Ghost} {chan : String} {p : Packet} (hI : HInv base x)
    (hl : LedgerInv (w', g')) (hv : PostV3S w'.st) (hm : (chan, p) ∈ x.c.delivered)
    (e1 : g'.sent = x.g.sent) (e2 : g'.failed = x.g.failed) (e3 : g'.redeemed = x.g.redeemed)
    (e4 : g'.inflight = x.g.inflight.erase (chan, p)) :
    HInv base ⟨w', g', { x.c with delivered := x.c.delivered.erase (chan, p),
                                  acked := bump x.c.acked (chan, p.denom) p.amount }⟩ where
  ledger := hl
  postV3 := hv
  sent_split := by
    intro k
    have h1 := hI.sent_split k
    have h2 := pktSum_erase hm k
    simp only [e1, e2, bump_apply]
    split <;> simp_all <;> omega
  minted_eq := by
    intro k
    have h1 := hI.minted_eq k
    have h2 := pktSum_erase hm k
    simp only [bump_apply]
    split <;> simp_all <;> omega
  redeemed_le := by intro k; simp only [e3]; exact hI.redeemed_le k
  inflight_count := by
    intro a
    have h1 := hI.inflight_count a
    have h2 := count_erase_add (a := a) hm
    have h3 := count_erase_add (a := a) (hinv_mem_inflight hI (Or.inr hm))
    simp only [e4]
    omega
  pending_pos := hI.pending_pos

/-- A processed failure (error acknowledgement or timeout) of a pending packet. -/
theorem hinv_failure {base : Key → Nat} {x : HState} {w' : World} {g' : Ghost} {chan : String} {p : Packet} (hI : HInv base x)
    (hl : LedgerInv (w', g')) (hv : PostV3S w'.st) (hm : (chan, p) ∈ x.c.pending)
    (e1 : g'.sent = x.g.sent) (e2 : g'.failed = bump x.g.failed (chan, p.denom) p.amount) (e3 : g'.redeemed = x.g.redeemed)
    (e4 : g'.inflight = x.g.inflight.erase (chan, p)) :
    HInv base ⟨w', g', { x.c with pending := x.c.pending.erase (chan, p) }⟩ where
  ledger := hl
  postV3 := hv
  sent_split := by
    intro k
    have h1 := hI.sent_split k
    have h2 := pktSum_erase hm k
    simp only [e1, e2, bump_apply]
    split <;> simp_all <;> omega
  minted_eq := hI.minted_eq
  redeemed_le := by intro k; simp only [e3]; exact hI.redeemed_le k
  inflight_count := by
    intro a
    have h1 := hI.inflight_count a
    have h2 := count_erase_add (a := a) hm
    have h3 := count_erase_add (a := a) (hinv_mem_inflight hI (Or.inl hm))
    simp only [e4]
    omega
  pending_pos := by
    intro a ha
    exact hI.pending_pos a (List.mem_of_mem_erase ha)

/-- Every honest transaction preserves the invariant. -/
theorem stepH_op_inv {base : Key → Nat} {x : HState} {blk : Block} {op : Op} (hI : HInv base x)
    (hh : honestEv x (.op blk op)) : HInv base (stepH x (.op blk op)) := by
  simp only [stepH]
  cases hx : x.w.exec blk op with
  | error e => exact hI
  | ok r =>
    obtain ⟨w', o⟩ := r
    have hl := exec_ledger hI.ledger hx
    have hv := exec_postV3S hI.postV3 hx
    have hs := fun k => update_sent_postV3 hI.postV3 hI.ledger hx k
    simp only
    cases op with
    | connect id v cv ord peer =>
      exact hinv_frame hI hl hv (fun k => by simpa [escrowedBy] using hs k) rfl hI.redeemed_le rfl
    | chanOpen v cv ord =>
      exact hinv_frame hI hl hv (fun k => by simpa [escrowedBy] using hs k) rfl hI.redeemed_le rfl
    | chanClose id => exact (exec_chanClose hx).elim
    | allow snd c gg =>
      exact hinv_frame hI hl hv (fun k => by simpa [escrowedBy] using hs k) rfl hI.redeemed_le rfl
    | updateAdmin snd a =>
      exact hinv_frame hI hl hv (fun k => by simpa [escrowedBy] using hs k) rfl hI.redeemed_le rfl
    | migrate gas =>
      exact hinv_frame hI hl hv (fun k => by simpa [escrowedBy] using hs k) rfl hI.redeemed_le rfl
    | transferNative snd funds msg =>
      obtain ⟨d, amt, w1, s, out, _, _, _, hs', _, rfl⟩ := exec_transferNative_spec hx
      obtain ⟨_, _, _, hne, _, _, _, rfl, _⟩ := execTransfer_spec hs'
      exact hinv_transfer hI hl hv hne rfl rfl rfl rfl
    | sendCw20 snd token amt msg =>
      obtain ⟨w1, m, s, out, _, _, _, _, hs', _, rfl⟩ := exec_sendCw20_spec hx
      obtain ⟨_, _, _, hne, _, _, _, rfl, _⟩ := execTransfer_spec hs'
      exact hinv_transfer hI hl hv hne rfl rfl rfl rfl
    | hook snd funds sender amt msg =>
      obtain ⟨m, s, out, _, _, hs', _, rfl⟩ := exec_hook_spec hx
      obtain ⟨_, _, _, hne, _, _, _, rfl, _⟩ := execTransfer_spec hs'
      exact hinv_transfer hI hl hv hne rfl rfl rfl rfl
    | recv p rv tv f =>
      have hc : x.c.update (.recv p rv tv f) o = x.c := rfl
      rw [hc]
      refine hinv_frame hI hl hv (fun k => by simpa [escrowedBy] using hs k) ?_ ?_ ?_
      · simp only [Ghost.update]; split <;> rfl
      · intro k
        rcases exec_recv_cases hx with ⟨_, _, ha, hsub⟩ | ⟨s1, sub, hd, hsub, hcase⟩
        · simp only [Ghost.update, ha, hsub]; exact hI.redeemed_le k
        · obtain ⟨amt, d, ch, hamt, hvch, _, _, _, hsa, hsd, _, _⟩ := doReceive_spec hd
          rcases hcase with ⟨_, ha⟩ | ⟨_, ha, _⟩
          · simp only [Ghost.update, ha, hsub, bump_apply, hsa, hsd]
            split
            · rename_i hk; subst hk
              exact hh amt _ _ d hamt hvch
            · exact hI.redeemed_le k
          · simp only [Ghost.update, ha, hsub]; exact hI.redeemed_le k
      · simp only [Ghost.update]; split <;> rfl
    | ack chan data ackOk sv tv f =>
      cases data with
      | none => exact hh.elim
      | some p =>
        cases ackOk with
        | none => exact hh.elim
        | some b =>
          cases b
          · obtain ⟨e1, e2, e3, e4⟩ := failure_fields x.g chan p o
            exact hinv_failure hI hl hv hh e1 e2 e3 e4
          · exact hinv_ackOk hI hl hv hh rfl rfl rfl rfl
    | timeout chan data sv tv f =>
      cases data with
      | none => exact hh.elim
      | some p =>
        obtain ⟨e1, e2, e3, e4⟩ := failure_fields x.g chan p o
        exact hinv_failure hI hl hv hh e1 e2 e3 e4

theorem stepH_inv {base : Key → Nat} {x : HState} {e : HEv} (hI : HInv base x) (hh : honestEv x e) :
    HInv base (stepH x e) := by
  cases e with
  | op blk op => exact stepH_op_inv hI hh
  | deliver chan p => exact stepH_deliver_inv hI hh

/-- The invariant holds along every honest annotated history. -/
theorem runH_inv {base : Key → Nat} {x : HState} (evs : List HEv) (hI : HInv base x) (hh : HonestFrom x evs) :
    HInv base (runH x evs) := by
  induction evs generalizing x with
  | nil => exact hI
  | cons e rest ih => exact ih (stepH_inv hI hh.1) hh.2

/-! ### Refunds -/

/-- If `on_packet_failure` accepts, the whole timeout transaction goes through (a failing refund sub-call
is swallowed by `reply`). -/
theorem exec_timeout_ok {w : World} {chan : String} {p : Packet} {tv : Bool} {s1 : State} {sub : SubMsg}
    (hf : onPacketFailure w.st chan (some p) tv = .ok (s1, sub)) (blk : Block) (sv f : Bool) :
    ∃ w' o, w.exec blk (.timeout chan (some p) sv tv f) = .ok (w', o) ∧ o.sub = some sub := by
  obtain ⟨_, _, _, _, _, _, _, _, hid⟩ := onPacketFailure_spec hf
  have hne : ACK_FAILURE_ID ≠ RECEIVE_ID := by decide
  have h1 : ibcPacketTimeout w.st chan (some p) tv = .ok (s1, some sub) := by
    simp [ibcPacketTimeout, hf, bind, Except.bind, pure, Except.pure]
  cases hp : ({ w with st := s1 } : World).payout sub sv f with
  | some w2 =>
    refine ⟨w2, { ack := none, sub := some sub }, ?_, rfl⟩
    simp [World.exec, h1, World.dispatch, hp, bind, Except.bind, pure, Except.pure]
  | none =>
    refine ⟨{ w with st := s1 }, { ack := some .error, sub := some sub }, ?_, rfl⟩
    simp [World.exec, h1, World.dispatch, hp, reply, hid, hne, bind, Except.bind, pure, Except.pure]

/-- The same for an error acknowledgement. -/
theorem exec_ackFail_ok {w : World} {chan : String} {p : Packet} {tv : Bool} {s1 : State} {sub : SubMsg}
    (hf : onPacketFailure w.st chan (some p) tv = .ok (s1, sub)) (blk : Block) (sv f : Bool) :
    ∃ w' o, w.exec blk (.ack chan (some p) (some false) sv tv f) = .ok (w', o) ∧ o.sub = some sub := by
  obtain ⟨_, _, _, _, _, _, _, _, hid⟩ := onPacketFailure_spec hf
  have hne : ACK_FAILURE_ID ≠ RECEIVE_ID := by decide
  have h1 : ibcPacketAck w.st chan (some p) (some false) tv = .ok (s1, some sub) := by
    simp [ibcPacketAck, hf, bind, Except.bind, pure, Except.pure]
  cases hp : ({ w with st := s1 } : World).payout sub sv f with
  | some w2 =>
    refine ⟨w2, { ack := none, sub := some sub }, ?_, rfl⟩
    simp [World.exec, h1, World.dispatch, hp, bind, Except.bind, pure, Except.pure]
  | none =>
    refine ⟨{ w with st := s1 }, { ack := some .error, sub := some sub }, ?_, rfl⟩
    simp [World.exec, h1, World.dispatch, hp, reply, hid, hne, bind, Except.bind, pure, Except.pure]

/-- If the gas check refuses the denomination, the refund transaction is aborted as a whole: neither a
timeout nor an error acknowledgement of that packet can be processed. -/
theorem refund_aborts_of_gas_error {w : World} {chan : String} {p : Packet} {tv : Bool} {e : String}
    (hg : checkGasLimit w.st p.denom tv = .error e) (blk : Block) (sv f : Bool) :
    (∃ e', w.exec blk (.timeout chan (some p) sv tv f) = .error e') ∧
    (∃ e', w.exec blk (.ack chan (some p) (some false) sv tv f) = .error e') := by
  have hf : ∃ e', onPacketFailure w.st chan (some p) tv = .error e' := by
    simp only [onPacketFailure]
    cases hr : reduceBalance w.st.chan chan p.denom p.amount with
    | error e' => exact ⟨e', by simp [bind, Except.bind]⟩
    | ok ch => exact ⟨e, by simp [hg, bind, Except.bind]⟩
  obtain ⟨e', hf⟩ := hf
  constructor
  · exact ⟨e', by simp [World.exec, ibcPacketTimeout, hf, bind, Except.bind]⟩
  · exact ⟨e', by simp [World.exec, ibcPacketAck, hf, bind, Except.bind]⟩

/-- Honest annotated histories are admissible histories of their transactions: world and ghosts are
those of `runG` (so everything proved over `runG` applies to them). -/
theorem runH_eq_runG {base : Key → Nat} {x : HState} (evs : List HEv) (hI : HInv base x) (hh : HonestFrom x evs) :
    ((runH x evs).w, (runH x evs).g) = runG (x.w, x.g) (opsOf evs) := by
  induction evs generalizing x with
  | nil => rfl
  | cons e rest ih =>
    have hI' := stepH_inv hI hh.1
    have := ih hI' hh.2
    simp only [runH, List.foldl_cons] at this ⊢
    rw [this]
    cases e with
    | deliver chan p => rfl
    | op blk op =>
      have ha := hinv_honest_admissible hI hh.1
      simp only [opsOf, runG, List.foldl_cons]
      congr 1
      rw [stepG_eq_stepU ha]
      simp only [stepH, stepU]
      split <;> simp_all

end CwPlus.Ics20
