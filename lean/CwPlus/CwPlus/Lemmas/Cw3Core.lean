import CwPlus.Model.Cw3Core
/-!
# Lemmas about the shared cw3 core (`Model/Cw3Core.lean`)

Everything here is generic in the two parameters of the core (the voting-weight function passed to
`vote`, the proposer weight passed to `propose`, the `auth` flag of `execute`), so both the
cw3-fixed and the cw3-flex instantiation can use it:

* `*_spec` — inversion lemmas: what a successful `propose / vote / execute / close` did,
* `WF` — the structural invariant of the core (ids `1..count`, ballots only for existing proposals,
  one ballot per key, stored tally = sum of the ballots) and its preservation,
* `edge` — the order on stored statuses and the per-operation status lemmas,
* `Same` — the fields of a proposal that never change.
-/
namespace CwPlus

namespace AMap
variable {κ ν : Type} [DecidableEq κ]

theorem set_of_get?_none {m : AMap κ ν} {k : κ} {v : ν} (h : get? m k = none) : set m k v = m ++ [(k, v)] := by
  fun_induction set m k v <;> grind [get?]

theorem get?_some_mem {m : AMap κ ν} {k : κ} {v : ν} (h : get? m k = some v) : (k, v) ∈ m := by
  fun_induction get? m k <;> grind

theorem get?_isSome_iff_mem_keys {m : AMap κ ν} {k : κ} : (get? m k).isSome ↔ k ∈ keys m := by
  fun_induction get? m k <;> grind [keys]

theorem get?_of_mem_nodup {m : AMap κ ν} {k : κ} {v : ν} (hn : NodupKeys m) (h : (k, v) ∈ m) : get? m k = some v := by
  induction m with
  | nil => simp at h
  | cons p rest ih =>
    obtain ⟨k', v'⟩ := p
    simp only [NodupKeys, keys, List.map_cons, List.nodup_cons] at hn
    rcases List.mem_cons.mp h with e | hm
    · cases e; simp [get?]
    · have hne : k' ≠ k := by
        intro e; subst e; exact hn.1 (List.mem_map.mpr ⟨(k', v), hm, rfl⟩)
      simp only [get?, hne, if_false]
      exact ih hn.2 hm

end AMap

namespace Cw3Core
open CwPlus.Cw3

/-! ## tally of a ballot map -/

/-- The weight a ballot contributes to option `k`. -/
def wOf (k : Vote) (b : Ballot) : Nat := if b.vote = k then b.weight else 0

/-- Sum of the weights of the ballots for option `k`. -/
def sumK (k : Vote) (bs : AMap Addr Ballot) : Nat := (bs.map (fun e => wOf k e.2)).sum

/-- The tally implied by a ballot map: per option, the sum of the weights of its ballots. -/
def tallyOf (bs : AMap Addr Ballot) : Votes := ⟨sumK .yes bs, sumK .no bs, sumK .abstain bs, sumK .veto bs⟩

/-- Sum of all ballot weights. -/
def weightSum (bs : AMap Addr Ballot) : Nat := (bs.map (fun e => e.2.weight)).sum

@[simp] theorem sumK_nil (k : Vote) : sumK k [] = 0 := rfl
@[simp] theorem weightSum_nil : weightSum [] = 0 := rfl

theorem sumK_append (k : Vote) (xs ys : AMap Addr Ballot) : sumK k (xs ++ ys) = sumK k xs + sumK k ys := by
  simp [sumK, List.map_append, List.sum_append]

theorem sumK_set_new {bs : AMap Addr Ballot} {a : Addr} {b : Ballot} (k : Vote) (h : bs.get? a = none) :
    sumK k (bs.set a b) = sumK k bs + wOf k b := by
  rw [AMap.set_of_get?_none h, sumK_append]; simp [sumK]

theorem weightSum_set_new {bs : AMap Addr Ballot} {a : Addr} {b : Ballot} (h : bs.get? a = none) :
    weightSum (bs.set a b) = weightSum bs + b.weight := by
  rw [AMap.set_of_get?_none h]; simp [weightSum, List.map_append, List.sum_append]

theorem wOf_sum (b : Ballot) : wOf .yes b + wOf .no b + wOf .abstain b + wOf .veto b = b.weight := by
  rcases b with ⟨w, v⟩; cases v <;> simp [wOf]

theorem weightSum_eq (bs : AMap Addr Ballot) :
    weightSum bs = sumK .yes bs + sumK .no bs + sumK .abstain bs + sumK .veto bs := by
  induction bs with
  | nil => rfl
  | cons p rest ih =>
    simp only [weightSum, sumK, List.map_cons, List.sum_cons] at *
    have := wOf_sum p.2
    omega

/-- `Votes::add_vote` without overflow adds the ballot's weight to its option. -/
theorem add_eq {v v' : Votes} {k : Vote} {w : Nat} (h : v.add k w = .ok v') :
    v' = ⟨v.yes + wOf .yes ⟨w, k⟩, v.no + wOf .no ⟨w, k⟩, v.abstain + wOf .abstain ⟨w, k⟩, v.veto + wOf .veto ⟨w, k⟩⟩ := by
  cases k <;> simp [Votes.add, wOf] at h ⊢ <;> obtain ⟨x, ⟨_, hx⟩, rfl⟩ := h <;> simp [hx]

theorem tallyOf_set_new {bs : AMap Addr Ballot} {a : Addr} {k : Vote} {w : Nat} {v' : Votes}
    (hn : bs.get? a = none) (h : (tallyOf bs).add k w = .ok v') : v' = tallyOf (bs.set a ⟨w, k⟩) := by
  rw [add_eq h]
  simp [tallyOf, sumK_set_new _ hn]

/-- If every ballot's weight is the weight its voter has in a weight map without repeated keys,
and no voter has two ballots, the ballots together weigh at most the sum of the map. -/
theorem weightSum_le_sum : ∀ (bs : AMap Addr Ballot) (voters : AMap Addr Nat), AMap.NodupKeys bs → AMap.NodupKeys voters →
    (∀ a b, bs.get? a = some b → voters.get? a = some b.weight) → weightSum bs ≤ AMap.sum voters
  | [], _, _, _, _ => by simp
  | (a, b) :: rest, voters, hn, hv, h => by
    simp only [AMap.NodupKeys, AMap.keys, List.map_cons, List.nodup_cons] at hn
    have ha : voters.get? a = some b.weight := h a b (by simp [AMap.get?])
    have hrest : ∀ (a' : Addr) (b' : Ballot), AMap.get? rest a' = some b' → (voters.erase a).get? a' = some b'.weight := by
      intro a' b' hb'
      have hne : a ≠ a' := by
        intro e; subst e
        have : AMap.get? rest a = none := AMap.get?_eq_none_iff.mpr hn.1
        rw [this] at hb'; cases hb'
      rw [AMap.get?_erase_ne _ _ _ hne]
      exact h a' b' (by simp [AMap.get?, hne, hb'])
    have ih := weightSum_le_sum rest (voters.erase a) hn.2 (AMap.nodup_erase hv) hrest
    have hs := AMap.sum_erase voters a hv
    simp [ha] at hs
    simp only [weightSum, List.map_cons, List.sum_cons] at ih ⊢
    omega

/-! ## ballots map -/

theorem ballotsOf_set (c : Core) (id id' : Nat) (a : Addr) (b : Ballot) (cnt : Nat) (ps : AMap Nat Proposal) :
    ballotsOf { count := cnt, proposals := ps, ballots := setBallot c id a b } id' =
      if id = id' then (ballotsOf c id).set a b else ballotsOf c id' := by
  unfold ballotsOf setBallot
  rw [AMap.get?_set]
  split <;> simp_all [ballotsOf]

@[simp] theorem ballotsOf_frame (c : Core) (id : Nat) (cnt : Nat) (ps : AMap Nat Proposal) :
    ballotsOf { count := cnt, proposals := ps, ballots := c.ballots } id = ballotsOf c id := rfl

/-! ## inversion lemmas -/

theorem afterChecked_eq {d : Duration} {blk : Block} {e : Expiration} (h : afterChecked d blk = .ok e) : e = d.after blk := by
  unfold afterChecked at h
  split at h <;> simp at h <;> simp [h]

/-- The chosen expiry is comparable with, and never later than, the maximum. -/
theorem chooseExpiry_le {maxE e : Expiration} {latest : Option Expiration} (h : chooseExpiry maxE latest = .ok e) :
    e.cmp? maxE = some .lt ∨ e.cmp? maxE = some .eq := by
  unfold chooseExpiry at h
  split at h
  · simp at h; subst h
    cases maxE <;> simp [Expiration.cmp?]
  · rename_i o ho hne
    simp at h; subst h
    cases o <;> simp_all
  · simp at h

theorem propose_spec {c c' : Core} {blk : Block} {snd : Addr} {w : Nat} {thr : Threshold} {total : Nat} {maxP : Duration}
    {t d : String} {msgs : List Msg} {latest : Option Expiration} {dep : Option Deposit} {id : Nat}
    (h : propose c blk snd w thr total maxP t d msgs latest dep = .ok (c', id)) :
    ∃ expires st,
      chooseExpiry (maxP.after blk) latest = .ok expires ∧
      Proposal.currentStatus
        { title := t, description := d, startHeight := blk.height, expires, msgs, status := .open, threshold := thr,
          totalWeight := total, votes := Votes.ofYes w, proposer := snd, deposit := dep } blk = .ok st ∧
      id = c.count + 1 ∧ id ≤ U64_MAX ∧
      c' = { count := id,
             proposals := c.proposals.set id
               { title := t, description := d, startHeight := blk.height, expires, msgs, status := st, threshold := thr,
                 totalWeight := total, votes := Votes.ofYes w, proposer := snd, deposit := dep },
             ballots := setBallot c id snd ⟨w, .yes⟩ } := by
  simp [propose] at h
  obtain ⟨maxE, h1, expires, h2, st, h3, ⟨hle, rfl⟩, rfl⟩ := h
  have := afterChecked_eq h1; subst this
  exact ⟨expires, st, h2, h3, rfl, hle, rfl⟩

theorem vote_spec {c c' : Core} {blk : Block} {snd : Addr} {id : Nat} {v : Vote} {weight : Proposal → Option Nat}
    (h : vote c blk snd id v weight = .ok c') :
    ∃ p w votes st,
      c.proposals.get? id = some p ∧ votable p.status = true ∧ p.expires.isExpired blk = false ∧
      weight p = some w ∧ 1 ≤ w ∧ (ballotsOf c id).get? snd = none ∧ p.votes.add v w = .ok votes ∧
      Proposal.currentStatus { p with votes := votes } blk = .ok st ∧
      c' = { c with proposals := c.proposals.set id { p with votes := votes, status := st },
                    ballots := setBallot c id snd ⟨w, v⟩ } := by
  simp [vote] at h
  obtain ⟨p, hp, hv, he, w, hw, hw1, hb, votes, hadd, st, hst, rfl⟩ := h
  exact ⟨p, w, votes, st, hp, hv, he, hw, hw1, hb, hadd, hst, rfl⟩

theorem execute_spec {c c' : Core} {blk : Block} {id : Nat} {auth : Bool} {out : List Msg}
    (h : execute c blk id auth = .ok (c', out)) :
    ∃ p, c.proposals.get? id = some p ∧ p.currentStatus blk = .ok .passed ∧ auth = true ∧ out = p.msgs ∧
      c' = { c with proposals := c.proposals.set id { p with status := .executed } } := by
  simp [execute] at h
  obtain ⟨p, hp, st, hst, rfl, hauth, rfl, rfl⟩ := h
  exact ⟨p, hp, hst, hauth, rfl, rfl⟩

theorem close_spec {c c' : Core} {blk : Block} {id : Nat} (h : close c blk id = .ok c') :
    ∃ p st, c.proposals.get? id = some p ∧ p.status ≠ .executed ∧ p.status ≠ .rejected ∧ p.status ≠ .passed ∧
      p.currentStatus blk = .ok st ∧ st ≠ .passed ∧ p.expires.isExpired blk = true ∧
      c' = { c with proposals := c.proposals.set id { p with status := .rejected } } := by
  simp [close] at h
  obtain ⟨p, hp, hs, st, hst, hne, hexp, rfl⟩ := h
  exact ⟨p, st, hp, hs.1.1, hs.1.2, hs.2, hst, hne, hexp, rfl⟩

/-! ## stored status: `current_status`, the order of statuses -/

/-- `current_status` of a proposal that is not stored `Open` is the stored status. -/
theorem cs_of_ne_open {t : Tally} {blk : Block} (h : t.status ≠ .open) : Cw3.currentStatus t blk = .ok t.status := by
  simp [Cw3.currentStatus, h]

/-- `current_status` of a proposal stored `Open`: `Passed` iff `is_passed`; otherwise `Rejected` iff
`is_rejected` or expired; otherwise `Open`. -/
theorem cs_of_open {t : Tally} {blk : Block} {st : Status} (ho : t.status = .open) (h : Cw3.currentStatus t blk = .ok st) :
    (Cw3.isPassed t blk = .ok true ∧ st = .passed) ∨
    (Cw3.isPassed t blk = .ok false ∧ ∃ rej, Cw3.isRejected t blk = .ok rej ∧
      ((rej = true ∨ t.expires.isExpired blk = true) ∧ st = .rejected ∨
       (rej = false ∧ t.expires.isExpired blk = false) ∧ st = .open)) := by
  simp only [Cw3.currentStatus, ho, ne_eq, not_true_eq_false, if_false] at h
  simp only [Res.bind_ok] at h
  obtain ⟨passed, hp, h⟩ := h
  cases passed with
  | true => simp at h; exact Or.inl ⟨hp, h.symm⟩
  | false =>
    simp only [Bool.false_eq_true, if_false, Res.bind_ok] at h
    obtain ⟨rej, hr, h⟩ := h
    refine Or.inr ⟨hp, rej, hr, ?_⟩
    cases rej <;> cases he : t.expires.isExpired blk <;> simp [he] at h ⊢ <;> exact h.symm

/-- The order in which a stored status may move: `Open → Passed → Executed`, `Open → Rejected`
(and `Open → Executed` in one step, when `Execute` finds the current status `Passed`). -/
def edge (s s' : Status) : Bool :=
  s == s' || (s == .open && (s' == .passed || s' == .rejected || s' == .executed)) || (s == .passed && s' == .executed)

theorem edge_refl (s : Status) : edge s s = true := by cases s <;> rfl

theorem edge_trans {a b c : Status} (h1 : edge a b = true) (h2 : edge b c = true) : edge a c = true := by
  cases a <;> cases b <;> cases c <;> simp_all [edge]

/-- `current_status` moves the stored status along `edge` (never to `Executed`). -/
theorem cs_edge {t : Tally} {blk : Block} {st : Status} (h : Cw3.currentStatus t blk = .ok st) :
    edge t.status st = true ∧ (st = .executed → t.status = .executed) := by
  by_cases ho : t.status = .open
  · rcases cs_of_open ho h with ⟨_, rfl⟩ | ⟨_, rej, _, ⟨_, rfl⟩ | ⟨_, rfl⟩⟩ <;> simp [edge, ho]
  · rw [cs_of_ne_open ho] at h; cases h; simp [edge_refl]

theorem cs_ne_pending {t : Tally} {blk : Block} {st : Status} (h : Cw3.currentStatus t blk = .ok st)
    (hn : t.status ≠ .pending) : st ≠ .pending := by
  by_cases ho : t.status = .open
  · rcases cs_of_open ho h with ⟨_, rfl⟩ | ⟨_, rej, _, ⟨_, rfl⟩ | ⟨_, rfl⟩⟩ <;> simp
  · rw [cs_of_ne_open ho] at h; cases h; exact hn

/-! ## the structural invariant of the core -/

/-- Ids are exactly `1..count`; ballots exist only for existing proposals; one ballot per
`(proposal, voter)` key; the stored tally of every proposal is the sum of its ballots. -/
structure WF (c : Core) : Prop where
  ids : ∀ id, (c.proposals.get? id).isSome = true ↔ (1 ≤ id ∧ id ≤ c.count)
  noBallots : ∀ id, c.proposals.get? id = none → ballotsOf c id = []
  nodup : ∀ id, AMap.NodupKeys (ballotsOf c id)
  tally : ∀ id p, c.proposals.get? id = some p → p.votes = tallyOf (ballotsOf c id)
  notPending : ∀ id p, c.proposals.get? id = some p → p.status ≠ .pending

theorem wf_empty : WF Core.empty := by
  refine ⟨?_, ?_, ?_, ?_, ?_⟩ <;> intros <;> simp_all [Core.empty, ballotsOf, AMap.NodupKeys, AMap.keys] <;> omega

theorem WF.fresh {c : Core} (h : WF c) {id : Nat} (hid : c.count < id) : c.proposals.get? id = none := by
  have := (h.ids id)
  cases hg : c.proposals.get? id with
  | none => rfl
  | some p => rw [hg] at this; simp at this; omega

theorem propose_wf {c c' : Core} {blk : Block} {snd : Addr} {w : Nat} {thr : Threshold} {total : Nat} {maxP : Duration}
    {t d : String} {msgs : List Msg} {latest : Option Expiration} {dep : Option Deposit} {id : Nat}
    (hw : WF c) (h : propose c blk snd w thr total maxP t d msgs latest dep = .ok (c', id)) : WF c' := by
  obtain ⟨expires, st, _, hst, hid, _, rfl⟩ := propose_spec h
  have hnone : c.proposals.get? id = none := hw.fresh (by omega)
  have hb : ballotsOf c id = [] := hw.noBallots id hnone
  refine ⟨?_, ?_, ?_, ?_, ?_⟩
  · intro id'
    simp only [AMap.get?_set]
    by_cases e : id = id'
    · subst e; simp; omega
    · have := hw.ids id'; simp [e]; rw [this]; omega
  · intro id' hn
    simp only [AMap.get?_set] at hn
    by_cases e : id = id'
    · simp [e] at hn
    · simp only [e, if_false] at hn
      rw [ballotsOf_set]; simp [e, hw.noBallots id' hn]
  · intro id'
    rw [ballotsOf_set]
    split
    · exact AMap.nodup_set (hw.nodup id)
    · exact hw.nodup id'
  · intro id' p hp
    simp only [AMap.get?_set] at hp
    rw [ballotsOf_set]
    by_cases e : id = id'
    · simp only [e, if_true, Option.some.injEq] at hp
      subst hp
      subst e
      simp [hb, AMap.set, tallyOf, sumK, wOf, Votes.ofYes]
    · simp only [e, if_false] at hp ⊢
      exact hw.tally id' p hp
  · intro id' p hp
    simp only [AMap.get?_set] at hp
    by_cases e : id = id'
    · simp only [e, if_true, Option.some.injEq] at hp
      subst hp
      exact cs_ne_pending hst (by simp [Proposal.tally])
    · simp only [e, if_false] at hp
      exact hw.notPending id' p hp

theorem vote_wf {c c' : Core} {blk : Block} {snd : Addr} {id : Nat} {v : Vote} {weight : Proposal → Option Nat}
    (hw : WF c) (h : vote c blk snd id v weight = .ok c') : WF c' := by
  obtain ⟨p, w, votes, st, hp, _, _, _, _, hnb, hadd, hst, rfl⟩ := vote_spec h
  refine ⟨?_, ?_, ?_, ?_, ?_⟩
  · intro id'
    simp only [AMap.get?_set]
    by_cases e : id = id'
    · subst e; have := hw.ids id; rw [hp] at this; simpa using this
    · simp [e]; exact hw.ids id'
  · intro id' hn
    simp only [AMap.get?_set] at hn
    by_cases e : id = id'
    · simp [e] at hn
    · simp only [e, if_false] at hn
      rw [ballotsOf_set]; simp [e, hw.noBallots id' hn]
  · intro id'
    rw [ballotsOf_set]
    split
    · exact AMap.nodup_set (hw.nodup id)
    · exact hw.nodup id'
  · intro id' p' hp'
    simp only [AMap.get?_set] at hp'
    rw [ballotsOf_set]
    by_cases e : id = id'
    · simp only [e, if_true, Option.some.injEq] at hp' ⊢
      subst hp'
      have ht := hw.tally id p hp
      rw [ht] at hadd
      simpa [e] using tallyOf_set_new hnb hadd
    · simp only [e, if_false] at hp' ⊢
      exact hw.tally id' p' hp'
  · intro id' p' hp'
    simp only [AMap.get?_set] at hp'
    by_cases e : id = id'
    · simp only [e, if_true, Option.some.injEq] at hp'
      subst hp'
      exact cs_ne_pending hst (by simpa [Proposal.tally] using hw.notPending id p hp)
    · simp only [e, if_false] at hp'
      exact hw.notPending id' p' hp'

/-- Changing only the stored status of an existing proposal keeps the invariant. -/
theorem wf_set_status {c : Core} {id : Nat} {p : Proposal} (hw : WF c) (hp : c.proposals.get? id = some p) (s : Status)
    (hs : s ≠ .pending) :
    WF { c with proposals := c.proposals.set id { p with status := s } } := by
  refine ⟨?_, ?_, ?_, ?_, ?_⟩
  · intro id'
    simp only [AMap.get?_set]
    by_cases e : id = id'
    · subst e; have := hw.ids id; rw [hp] at this; simpa using this
    · simp [e]; exact hw.ids id'
  · intro id' hn
    simp only [AMap.get?_set] at hn
    by_cases e : id = id'
    · simp [e] at hn
    · simp only [e, if_false] at hn
      exact hw.noBallots id' hn
  · intro id'; exact hw.nodup id'
  · intro id' p' hp'
    simp only [AMap.get?_set] at hp'
    by_cases e : id = id'
    · simp only [e, if_true, Option.some.injEq] at hp'
      subst hp'
      exact e ▸ hw.tally id p hp
    · simp only [e, if_false] at hp'
      exact hw.tally id' p' hp'
  · intro id' p' hp'
    simp only [AMap.get?_set] at hp'
    by_cases e : id = id'
    · simp only [e, if_true, Option.some.injEq] at hp'
      subst hp'
      exact hs
    · simp only [e, if_false] at hp'
      exact hw.notPending id' p' hp'

theorem execute_wf {c c' : Core} {blk : Block} {id : Nat} {auth : Bool} {out : List Msg}
    (hw : WF c) (h : execute c blk id auth = .ok (c', out)) : WF c' := by
  obtain ⟨p, hp, _, _, _, rfl⟩ := execute_spec h
  exact wf_set_status hw hp _ (by simp)

theorem close_wf {c c' : Core} {blk : Block} {id : Nat} (hw : WF c) (h : close c blk id = .ok c') : WF c' := by
  obtain ⟨p, _, hp, _, _, _, _, _, _, rfl⟩ := close_spec h
  exact wf_set_status hw hp _ (by simp)

/-! ## what never changes: `Later` -/

/-- The fields of a proposal other than the stored status and the tally. -/
def Proposal.fixedPart (p : Proposal) : Proposal := { p with status := .open, votes := ⟨0, 0, 0, 0⟩ }

/-- `c'` is a later state of `c`: the counter did not decrease, every proposal is still there with
the same content (title, description, start height, expiry, messages, threshold, total weight,
proposer, deposit) and a status reachable along `edge`, and every ballot is still there unchanged. -/
structure Later (c c' : Core) : Prop where
  count : c.count ≤ c'.count
  props : ∀ id p, c.proposals.get? id = some p →
    ∃ p', c'.proposals.get? id = some p' ∧ p'.fixedPart = p.fixedPart ∧ edge p.status p'.status = true
  ballots : ∀ id a b, (ballotsOf c id).get? a = some b → (ballotsOf c' id).get? a = some b

theorem later_refl (c : Core) : Later c c :=
  ⟨Nat.le_refl _, fun _ p h => ⟨p, h, rfl, edge_refl _⟩, fun _ _ _ h => h⟩

theorem later_trans {a b c : Core} (h1 : Later a b) (h2 : Later b c) : Later a c := by
  refine ⟨Nat.le_trans h1.count h2.count, ?_, fun id x y h => h2.ballots id x y (h1.ballots id x y h)⟩
  intro id p hp
  obtain ⟨p1, hp1, e1, s1⟩ := h1.props id p hp
  obtain ⟨p2, hp2, e2, s2⟩ := h2.props id p1 hp1
  exact ⟨p2, hp2, e2.trans e1, edge_trans s1 s2⟩

/-- Replacing the status (along `edge`) and the votes of one proposal, and adding a ballot under
a fresh key, leads to a later state. -/
theorem later_update {c : Core} {id : Nat} {p : Proposal} (hp : c.proposals.get? id = some p)
    (st : Status) (votes : Votes) (he : edge p.status st = true) (bs : AMap Nat (AMap Addr Ballot))
    (hb : ∀ id' a b, (ballotsOf c id').get? a = some b →
      (ballotsOf { count := c.count, proposals := c.proposals.set id { p with status := st, votes := votes }, ballots := bs } id').get? a = some b) :
    Later c { count := c.count, proposals := c.proposals.set id { p with status := st, votes := votes }, ballots := bs } := by
  refine ⟨Nat.le_refl _, ?_, hb⟩
  intro id' p' hp'
  simp only [AMap.get?_set]
  by_cases e : id = id'
  · subst e; rw [hp] at hp'; cases hp'
    exact ⟨{ p with status := st, votes := votes }, by simp, rfl, he⟩
  · exact ⟨p', by simp [e, hp'], rfl, edge_refl _⟩

theorem propose_later {c c' : Core} {blk : Block} {snd : Addr} {w : Nat} {thr : Threshold} {total : Nat} {maxP : Duration}
    {t d : String} {msgs : List Msg} {latest : Option Expiration} {dep : Option Deposit} {id : Nat}
    (hw : WF c) (h : propose c blk snd w thr total maxP t d msgs latest dep = .ok (c', id)) : Later c c' := by
  obtain ⟨expires, st, _, _, hid, _, rfl⟩ := propose_spec h
  have hnone : c.proposals.get? id = none := hw.fresh (by omega)
  refine ⟨by simp; omega, ?_, ?_⟩
  · intro id' p' hp'
    have e : id ≠ id' := by intro e; subst e; rw [hnone] at hp'; cases hp'
    exact ⟨p', by simp [e, hp'], rfl, edge_refl _⟩
  · intro id' a b hb
    rw [ballotsOf_set]
    by_cases e : id = id'
    · subst e; rw [hw.noBallots id hnone] at hb; simp at hb
    · simp [e, hb]

theorem vote_later {c c' : Core} {blk : Block} {snd : Addr} {id : Nat} {v : Vote} {weight : Proposal → Option Nat}
    (h : vote c blk snd id v weight = .ok c') : Later c c' := by
  obtain ⟨p, w, votes, st, hp, _, _, _, _, hnb, _, hst, rfl⟩ := vote_spec h
  have he : edge p.status st = true := (cs_edge hst).1
  have := later_update hp st votes he (setBallot c id snd ⟨w, v⟩) (by
    intro id' a b hb
    rw [ballotsOf_set]
    by_cases e : id = id'
    · subst e
      have : snd ≠ a := by intro e; subst e; rw [hnb] at hb; cases hb
      simp [AMap.get?_set_ne _ _ _ _ this, hb]
    · simp [e, hb])
  exact this

theorem execute_later {c c' : Core} {blk : Block} {id : Nat} {auth : Bool} {out : List Msg}
    (h : execute c blk id auth = .ok (c', out)) : Later c c' := by
  obtain ⟨p, hp, hst, _, _, rfl⟩ := execute_spec h
  have he : edge p.status .executed = true := by
    have := (cs_edge hst).1
    simp only [Proposal.tally] at this
    cases hs : p.status <;> simp_all [edge]
  exact later_update hp .executed p.votes he c.ballots (fun _ _ _ hb => hb)

theorem close_later {c c' : Core} {blk : Block} {id : Nat} (hw : WF c) (h : close c blk id = .ok c') : Later c c' := by
  obtain ⟨p, st, hp, h1, h2, h3, hst, _, _, rfl⟩ := close_spec h
  have he : edge p.status .rejected = true := by
    have := hw.notPending id p hp
    cases hs : p.status <;> simp_all [edge]
  exact later_update hp .rejected p.votes he c.ballots (fun _ _ _ hb => hb)

end Cw3Core
end CwPlus
