import CwPlus.Lemmas.Cw4Stake
import CwPlus.Lemmas.Cw4GroupNodup
/-!
# cw4-stake: the current view of `MEMBERS` never holds a key twice

`AMap.NodupKeys s.members.cur` holds after `instantiate` (empty map), is preserved by every handler
(`execute_nodup`: `MEMBERS` is written only by `update_membership`), by every transaction of the world
(`tx_nodup`) and hence by every history (`run_nodup`).  Core only.
-/
namespace CwPlus.Cw4Stake
open CwPlus CwPlus.Snapshot

theorem instantiate_nodup {m : InstMsg} {s : State} (h : instantiate m = .ok s) : AMap.NodupKeys s.members.cur := by
  simp [instantiate] at h
  obtain ⟨adm, _, rfl⟩ := h
  exact SnapMap.nodup_empty

theorem um_nodup (s : State) (h : Nat) (a : Addr) (new : Option Nat) (hs : AMap.NodupKeys s.members.cur) :
    AMap.NodupKeys (um s h a new).1.members.cur := by
  unfold um
  split
  · exact hs
  · exact SnapMap.nodup_write _ _ _ hs

theorem updateMembership_nodup {s : State} {h : Nat} {a : Addr} {ns : Nat} {r : State × List Out}
    (hr : updateMembership s h a ns = .ok r) (hs : AMap.NodupKeys s.members.cur) : AMap.NodupKeys r.1.members.cur := by
  obtain ⟨new, _, rfl, _⟩ := updateMembership_ok hr
  exact um_nodup _ _ _ _ hs

theorem execBond_nodup {s : State} {blk : Block} {staker : Addr} {p : Paid} {r : State × List Out}
    (h : execBond s blk staker p = .ok r) (hs : AMap.NodupKeys s.members.cur) : AMap.NodupKeys r.1.members.cur := by
  obtain ⟨amt, new, _, _, _, rfl, _⟩ := execBond_ok h
  exact um_nodup _ _ _ _ hs

/-- Every successful call of every message kind preserves the invariant. -/
theorem execute_nodup {s : State} {blk : Block} {snd : Addr} {funds : List (String × Nat)} {msg : Msg}
    {r : State × List Out} (hs : AMap.NodupKeys s.members.cur) (h : execute s blk snd funds msg = .ok r) :
    AMap.NodupKeys r.1.members.cur := by
  cases msg <;> simp only [execute] at h
  case bond => exact execBond_nodup h hs
  case unbond amt =>
    obtain ⟨new, _, _, rfl, _⟩ := execUnbond_ok h
    exact um_nodup _ _ _ _ hs
  case claim =>
    obtain ⟨_, rfl⟩ := execClaim_ok h
    exact hs
  case updateAdmin a =>
    simp [execUpdateAdmin] at h
    obtain ⟨adm, _, _, rfl⟩ := h
    exact hs
  case addHook a =>
    simp [execAddHook] at h
    obtain ⟨_, _, _, rfl⟩ := h
    exact hs
  case removeHook a =>
    simp [execRemoveHook] at h
    obtain ⟨_, _, _, rfl⟩ := h
    exact hs
  case receive sender amt ok =>
    simp only [execReceive, check_bind_ok] at h
    exact execBond_nodup h.2.2 hs

theorem finish_nodup {w w' : World} {r : State × List Out} {out : List Out}
    (h : finish w r = .ok (w', out)) (hr : AMap.NodupKeys r.1.members.cur) : AMap.NodupKeys w'.st.members.cur := by
  obtain ⟨hd, _⟩ := finish_ok h
  rw [(deliver_frame hd).1]; exact hr

/-- Every successful transaction of the world preserves the invariant. -/
theorem tx_nodup {w w' : World} {blk : Block} {op : Op} {out : List Out} (hs : AMap.NodupKeys w.st.members.cur)
    (h : tx w blk op = .ok (w', out)) : AMap.NodupKeys w'.st.members.cur := by
  cases op <;> simp only [tx, Res.bind_ok] at h
  case bond snd coins =>
    obtain ⟨_, _, w1, h1, r, hr, hf⟩ := h
    obtain ⟨_, rfl⟩ := payIn_ok h1
    exact finish_nodup hf (execute_nodup hs hr)
  case send snd token amt ok =>
    split at h <;> simp only [Res.bind_ok] at h
    · obtain ⟨w1, h1, r, hr, hf⟩ := h
      obtain ⟨_, rfl⟩ := payIn_ok h1
      exact finish_nodup hf (execute_nodup hs hr)
    · obtain ⟨w1, h1, r, hr, hf⟩ := h
      simp [pure, Except.pure] at h1; subst h1
      exact finish_nodup hf (execute_nodup hs hr)
  case receive snd sender amt ok =>
    obtain ⟨_, _, r, hr, hf⟩ := h
    exact finish_nodup hf (execute_nodup hs hr)
  case unbond snd amt =>
    obtain ⟨r, hr, hf⟩ := h
    exact finish_nodup hf (execute_nodup hs hr)
  case claim snd =>
    obtain ⟨r, hr, hf⟩ := h
    exact finish_nodup hf (execute_nodup hs hr)
  case updateAdmin snd a =>
    obtain ⟨r, hr, hf⟩ := h
    exact finish_nodup hf (execute_nodup hs hr)
  case addHook snd a =>
    obtain ⟨r, hr, hf⟩ := h
    exact finish_nodup hf (execute_nodup hs hr)
  case removeHook snd a =>
    obtain ⟨r, hr, hf⟩ := h
    exact finish_nodup hf (execute_nodup hs hr)
  case donate snd amt =>
    obtain ⟨_, _, w1, h1, hp⟩ := h
    obtain ⟨_, rfl⟩ := payIn_ok h1
    simp [pure, Except.pure] at hp
    obtain ⟨rfl, _⟩ := hp
    exact hs

/-- Every history preserves the invariant. -/
theorem run_nodup {w : World} (hs : AMap.NodupKeys w.st.members.cur) (ops : List (Block × Op)) :
    AMap.NodupKeys (run w ops).st.members.cur :=
  run_inv (fun w => AMap.NodupKeys w.st.members.cur) (fun _ _ _ _ _ hq h => tx_nodup hq h) hs ops

end CwPlus.Cw4Stake
