import CwPlus.Lemmas.Ics20Migrate
/-!
# The environment assumptions of the cw20-ics20 model, made explicit

`World.exec` (Model/Ics20.lean) refuses three kinds of transactions that the environment never produces
(tags `impossible.self`, `impossible.token`) and represents denominations structurally.  This file states
those assumptions as a `structure EnvAssumptions` over a history, defines the transaction semantics
*without* the guards (`World.execRaw`: same handlers, same runtime, no `impossible.*` checks), proves that
both semantics agree on every history satisfying the assumptions, and proves what the structural
representation of denominations needs (`render` is injective on the stored keys).

* **E1 `hook_only_from_send`** — a real cw20 token contract calls `ExecuteMsg::Receive` only from its own
  `Send`, after crediting the ics20 contract: a *direct* `Receive` never has a real token as `info.sender`.
* **E2 `never_calls_itself`** — the ics20 contract never sends a message to itself (it emits only
  `IbcMsg::SendPacket`, `BankMsg::Send` and cw20 `Transfer`), so it is never the sender of a transfer.
* **E3 `native_not_cw20`** — no native (bank) denomination has the form `cw20:…`, so the storage key
  `Amount::denom()` of a native coin never collides with that of a cw20 token.
-/
namespace CwPlus.Ics20
open CwPlus

/-- E3 for one bank denomination: it is not of the form `"cw20:" ++ a`. -/
def NativeOk (d : String) : Prop := ∀ a, d ≠ "cw20:" ++ a

theorem cw20_prefix_toList : "cw20:".toList = ['c', 'w', '2', '0', ':'] := by decide

/-- A checkable criterion for E3: the first five characters are not `cw20:`. -/
theorem nativeOk_of_take {d : String} (h : d.toList.take 5 ≠ ['c', 'w', '2', '0', ':']) : NativeOk d := by
  intro a e
  apply h
  rw [e, String.toList_append, cw20_prefix_toList]
  simp

/-- The environment assumptions about a history run against a contract with address `me` in a world
whose real cw20 token contracts are `tokens`. -/
structure EnvAssumptions (me : Addr) (tokens : List Addr) (ops : List (Block × Op)) : Prop where
  /-- **E1**: a real token calls the receive hook only from `Send` (modelled by `Op.sendCw20`, which credits
  the contract first); a direct `Receive` (`Op.hook`) never comes from one of the real tokens. -/
  hook_only_from_send : ∀ blk snd funds sender amt msg,
    (blk, Op.hook snd funds sender amt msg) ∈ ops → tokens.contains snd = false
  /-- **E2**: the contract never calls itself: it is not the sender of a native transfer or of a cw20 `Send`. -/
  never_calls_itself :
    (∀ blk snd funds msg, (blk, Op.transferNative snd funds msg) ∈ ops → snd ≠ me) ∧
    (∀ blk snd token amt msg, (blk, Op.sendCw20 snd token amt msg) ∈ ops → snd ≠ me)
  /-- **E3**: no native denomination attached to a transfer starts with `cw20:`. -/
  native_not_cw20 : ∀ blk snd funds msg, (blk, Op.transferNative snd funds msg) ∈ ops → ∀ f ∈ funds, NativeOk f.1

theorem EnvAssumptions.tail {me : Addr} {tokens : List Addr} {o : Block × Op} {ops : List (Block × Op)}
    (h : EnvAssumptions me tokens (o :: ops)) : EnvAssumptions me tokens ops :=
  ⟨fun blk snd funds sender amt msg hm => h.hook_only_from_send blk snd funds sender amt msg (List.mem_cons_of_mem _ hm),
   ⟨fun blk snd funds msg hm => h.never_calls_itself.1 blk snd funds msg (List.mem_cons_of_mem _ hm),
    fun blk snd token amt msg hm => h.never_calls_itself.2 blk snd token amt msg (List.mem_cons_of_mem _ hm)⟩,
   fun blk snd funds msg hm => h.native_not_cw20 blk snd funds msg (List.mem_cons_of_mem _ hm)⟩

/-! ## The transaction semantics without the environment guards -/

/-- `World.exec` without the `impossible.self` / `impossible.token` guards: any account — including the
contract itself and real token contracts — may send any of the three transfer transactions. -/
def World.execRaw (w : World) (blk : Block) : Op → Res (World × Outcome)
  | .transferNative snd funds msg => do
    let w1 ← (match funds with
      | [(d, amt)] =>
        (if amt = 0 then .error "bank.empty" else
          match w.bankSend snd w.self d amt with
          | some w1 => .ok w1
          | none => .error "bank.insufficient")
      | [] => .ok w
      | _ => .error "multipledenoms" : Res World)
    let (s, out) ← execTransferNative w1.st blk snd funds msg
    pure ({ w1 with st := s }, { sent := [out] })
  | .sendCw20 snd token amt msg => do
    check (w.tokens.contains token) "notoken"
    let w1 ← (match w.tokSend token snd w.self amt with
      | some w1 => .ok w1
      | none => .error "cw20.insufficient" : Res World)
    let (s, out) ← execReceive w1.st blk token [] ⟨true, snd⟩ amt msg
    pure ({ w1 with st := s }, { sent := [out] })
  | .hook snd funds sender amt msg => do
    check funds.isEmpty "nonpayable"
    let (s, out) ← execReceive w.st blk snd funds sender amt msg
    pure ({ w with st := s }, { sent := [out] })
  | op => w.exec blk op

def World.stepRaw (w : World) (blk : Block) (op : Op) : World :=
  match w.execRaw blk op with
  | .ok (w', _) => w'
  | .error _ => w

/-- Histories under the unguarded semantics. -/
def runRaw (w : World) (ops : List (Block × Op)) : World := ops.foldl (fun w o => w.stepRaw o.1 o.2) w

/-- The guard of one transaction (what E1 and E2 say about it). -/
def guardOk (w : World) : Op → Prop
  | .transferNative snd _ _ => snd ≠ w.self
  | .sendCw20 snd _ _ _ => snd ≠ w.self
  | .hook snd _ _ _ _ => w.tokens.contains snd = false
  | _ => True

/-- Under its guard a transaction behaves the same with and without the guards. -/
theorem execRaw_eq_exec {w : World} {blk : Block} {op : Op} (hg : guardOk w op) : w.execRaw blk op = w.exec blk op := by
  cases op with
  | transferNative snd funds msg =>
    have hs : snd ≠ w.self := hg
    simp [World.execRaw, World.exec, check, hs]
    rfl
  | sendCw20 snd token amt msg =>
    have hs : snd ≠ w.self := hg
    simp [World.execRaw, World.exec, check, hs]
    rfl
  | hook snd funds sender amt msg =>
    have ht : snd ∉ w.tokens := by simpa [guardOk] using hg
    simp [World.execRaw, World.exec, check, ht]
    rfl
  | _ => rfl

/-- The guarded semantics refuses every transaction that violates its guard. -/
theorem exec_guard {w w' : World} {blk : Block} {op : Op} {o : Outcome} (h : w.exec blk op = .ok (w', o)) : guardOk w op := by
  cases op <;> simp only [guardOk]
  · obtain ⟨_, _, _, _, _, _, hself, _⟩ := exec_transferNative_spec h; exact hself
  · obtain ⟨_, _, _, _, hself, _⟩ := exec_sendCw20_spec h; exact hself
  · obtain ⟨_, _, _, ht, _⟩ := exec_hook_spec h; exact ht

/-- No transaction changes the contract's address or the set of real tokens. -/
theorem exec_self_tokens {w w' : World} {blk : Block} {op : Op} {o : Outcome} (h : w.exec blk op = .ok (w', o)) :
    w'.self = w.self ∧ w'.tokens = w.tokens := by
  cases op with
  | connect id v cv ord peer =>
    have f := exec_plain_frame h (Or.inl ⟨id, v, cv, ord, peer, rfl⟩); exact ⟨f.2.2.2.1, f.2.2.2.2.1⟩
  | chanOpen v cv ord => obtain ⟨rfl, rfl⟩ := exec_chanOpen h; exact ⟨rfl, rfl⟩
  | chanClose id => exact (exec_chanClose h).elim
  | allow snd c gg =>
    have f := exec_plain_frame h (Or.inr (Or.inl ⟨snd, c, gg, rfl⟩)); exact ⟨f.2.2.2.1, f.2.2.2.2.1⟩
  | updateAdmin snd a =>
    have f := exec_plain_frame h (Or.inr (Or.inr ⟨snd, a, rfl⟩)); exact ⟨f.2.2.2.1, f.2.2.2.2.1⟩
  | migrate gg => have f := exec_migrate_frame h; exact ⟨f.2.2.2.1, f.2.2.2.2.1⟩
  | transferNative snd funds msg =>
    obtain ⟨d, amt, w1, s, out, _, _, hb, _, rfl, rfl⟩ := exec_transferNative_spec h
    have f := bankSend_frame hb; exact ⟨f.2.2.1, f.2.2.2.1⟩
  | sendCw20 snd token amt msg =>
    obtain ⟨w1, m, s, out, _, _, hb, _, _, rfl, rfl⟩ := exec_sendCw20_spec h
    have f := tokSend_frame hb; exact ⟨f.2.2.1, f.2.2.2.1⟩
  | hook snd funds sender amt msg =>
    obtain ⟨m, s, out, _, _, _, rfl, rfl⟩ := exec_hook_spec h; exact ⟨rfl, rfl⟩
  | recv p rv tv f =>
    rcases exec_recv_cases h with ⟨_, rfl, _, _⟩ | ⟨s1, sub, hd, _, hc⟩
    · exact ⟨rfl, rfl⟩
    · rcases hc with ⟨hp, _⟩ | ⟨_, _, ra, ch2, _, _, rfl⟩
      · have f := payout_frame hp; exact ⟨f.2.1, f.2.2.1⟩
      · exact ⟨rfl, rfl⟩
  | ack chan data ackOk sv tv f =>
    rcases exec_ack_cases h with ⟨_, rfl, _, _⟩ | ⟨_, s1, sub, hf, _, hc⟩
    · exact ⟨rfl, rfl⟩
    · rcases hc with ⟨hp, _⟩ | ⟨_, rfl, _⟩
      · have f := payout_frame hp; exact ⟨f.2.1, f.2.2.1⟩
      · exact ⟨rfl, rfl⟩
  | timeout chan data sv tv f =>
    obtain ⟨s1, sub, hf, _, hc⟩ := exec_timeout_cases h
    rcases hc with ⟨hp, _⟩ | ⟨_, rfl, _⟩
    · have f := payout_frame hp; exact ⟨f.2.1, f.2.2.1⟩
    · exact ⟨rfl, rfl⟩

theorem step_self_tokens (w : World) (blk : Block) (op : Op) :
    (w.step blk op).self = w.self ∧ (w.step blk op).tokens = w.tokens := by
  unfold World.step
  split
  · rename_i w' o h; exact exec_self_tokens h
  · exact ⟨rfl, rfl⟩

/-- What E1 and E2 say about the head of a history is the guard of its first transaction. -/
theorem EnvAssumptions.head_guard {w : World} {o : Block × Op} {ops : List (Block × Op)}
    (h : EnvAssumptions w.self w.tokens (o :: ops)) : guardOk w o.2 := by
  obtain ⟨blk, op⟩ := o
  cases op <;> simp only [guardOk]
  · exact h.never_calls_itself.1 blk _ _ _ (List.mem_cons_self ..)
  · exact h.never_calls_itself.2 blk _ _ _ _ (List.mem_cons_self ..)
  · exact h.hook_only_from_send blk _ _ _ _ _ (List.mem_cons_self ..)

/-- On every history satisfying the environment assumptions the unguarded semantics and the model's
(guarded) semantics coincide. -/
theorem runRaw_eq_run (w : World) (ops : List (Block × Op)) (henv : EnvAssumptions w.self w.tokens ops) :
    runRaw w ops = ops.foldl (fun w o => w.step o.1 o.2) w := by
  induction ops generalizing w with
  | nil => rfl
  | cons o rest ih =>
    have hstep : w.stepRaw o.1 o.2 = w.step o.1 o.2 := by
      unfold World.stepRaw World.step
      rw [execRaw_eq_exec henv.head_guard]
      rfl
    simp only [runRaw, List.foldl_cons] at ih ⊢
    rw [hstep]
    apply ih
    obtain ⟨e1, e2⟩ := step_self_tokens w o.1 o.2
    rw [e1, e2]
    exact henv.tail

/-! ## E3: the structural denominations are faithful to the string storage keys -/

/-- A denomination whose storage key cannot collide: a cw20 token, or a native denomination satisfying E3. -/
def DenomOk : Denom → Prop
  | .native d => NativeOk d
  | .cw20 _ => True

/-- `Amount::denom()` is injective on denominations satisfying E3. -/
theorem render_inj {d d' : Denom} (h : DenomOk d) (h' : DenomOk d') (e : d.render = d'.render) : d = d' := by
  cases d with
  | native x =>
    cases d' with
    | native y => simp [Denom.render] at e; rw [e]
    | cw20 b => exact absurd e (h b)
  | cw20 a =>
    cases d' with
    | native y => exact absurd e.symm (h' a)
    | cw20 b =>
      simp only [Denom.render] at e
      rw [(String.append_right_inj "cw20:").mp e]

/-- Without E3 it is not: the native denomination `cw20:T1` and the token `T1` share a storage key. -/
theorem render_collision : (Denom.native "cw20:T1").render = (Denom.cw20 "T1").render := by decide

/-- Every stored key has a denomination satisfying E3. -/
def KeysFaithful (m : ChanMap) : Prop := ∀ k ∈ AMap.keys m, DenomOk k.2

theorem keysFaithful_set {m : ChanMap} (hk : KeysFaithful m) (k : Key) (v : ChanState)
    (h : k ∈ AMap.keys m ∨ DenomOk k.2) : KeysFaithful (m.set k v) := by
  intro x hx
  rcases AMap.mem_keys_set.mp hx with hx | rfl
  · exact hk x hx
  · rcases h with h | h
    · exact hk x h
    · exact h

theorem keysFaithful_increase {m ch : ChanMap} {c : String} {d : Denom} {amt : Nat} (hk : KeysFaithful m)
    (hinc : increaseBalance m c d amt = .ok ch) (hd : DenomOk d) : KeysFaithful ch := by
  simp [increaseBalance] at hinc
  obtain ⟨_, _, rfl⟩ := hinc
  exact keysFaithful_set hk (c, d) _ (Or.inr hd)

theorem keysFaithful_reduce {m ch : ChanMap} {c : String} {d : Denom} {amt : Nat} (hk : KeysFaithful m)
    (hred : reduceBalance m c d amt = .ok ch) : KeysFaithful ch := by
  obtain ⟨cs, hg, _, rfl, _, _⟩ := reduceBalance_spec hred
  exact keysFaithful_set hk (c, d) _ (Or.inl (mem_keys_of_get? hg))

/-- Every successful transaction whose attached native funds satisfy E3 keeps the stored keys faithful. -/
theorem exec_keysFaithful {w w' : World} {blk : Block} {op : Op} {o : Outcome}
    (hwf : WellFormed w.st) (hk : KeysFaithful w.st.chan)
    (he : ∀ snd funds msg, op = .transferNative snd funds msg → ∀ f ∈ funds, NativeOk f.1)
    (h : w.exec blk op = .ok (w', o)) : KeysFaithful w'.st.chan := by
  cases op with
  | connect id v cv ord peer =>
    have f := exec_plain_frame h (Or.inl ⟨id, v, cv, ord, peer, rfl⟩); rw [f.1]; exact hk
  | chanOpen v cv ord => obtain ⟨rfl, rfl⟩ := exec_chanOpen h; exact hk
  | chanClose id => exact (exec_chanClose h).elim
  | allow snd c gg =>
    have f := exec_plain_frame h (Or.inr (Or.inl ⟨snd, c, gg, rfl⟩)); rw [f.1]; exact hk
  | updateAdmin snd a =>
    have f := exec_plain_frame h (Or.inr (Or.inr ⟨snd, a, rfl⟩)); rw [f.1]; exact hk
  | migrate gg =>
    obtain ⟨_, hb⟩ := migrate_books (exec_migrate_frame h).1
    rcases hb with ⟨_, e⟩ | ⟨_, s1, s2, e1, _, hu, e2⟩
    · rw [e]; exact hk
    · have := (updateBalances_keys (by rw [e1]; exact hwf.1) hu).1
      intro k hkm
      rw [e2, this, e1] at hkm
      exact hk k hkm
  | transferNative snd funds msg =>
    obtain ⟨d, amt, w1, s, out, rfl, _, _, hs, rfl, rfl⟩ := exec_transferNative_spec h
    obtain ⟨ch, hinc, rfl, _⟩ := execTransfer_spec hs
    exact keysFaithful_increase hk hinc (he snd _ msg rfl (d, amt) (by simp))
  | sendCw20 snd token amt msg =>
    obtain ⟨w1, m, s, out, _, _, _, _, hs, rfl, rfl⟩ := exec_sendCw20_spec h
    obtain ⟨ch, hinc, rfl, _⟩ := execTransfer_spec hs
    exact keysFaithful_increase hk hinc trivial
  | hook snd funds sender amt msg =>
    obtain ⟨m, s, out, _, _, hs, rfl, rfl⟩ := exec_hook_spec h
    obtain ⟨ch, hinc, rfl, _⟩ := execTransfer_spec hs
    exact keysFaithful_increase hk hinc trivial
  | recv p rv tv f =>
    rcases exec_recv_cases h with ⟨_, rfl, _, _⟩ | ⟨s1, sub, hd, _, hc⟩
    · exact hk
    · obtain ⟨amt, d, ch, _, _, hred, rfl, _⟩ := doReceive_spec hd
      rcases hc with ⟨hp, _⟩ | ⟨_, _, ra, ch2, hra, hundo, rfl⟩
      · rw [(payout_frame hp).1]; exact keysFaithful_reduce hk hred
      · simp at hra; subst hra
        have := undoReduce_reduce_eq hred hundo
        subst this
        exact hk
  | ack chan data ackOk sv tv f =>
    rcases exec_ack_cases h with ⟨_, rfl, _, _⟩ | ⟨_, s1, sub, hf, _, hc⟩
    · exact hk
    · obtain ⟨p, ch, rfl, hred, rfl, _⟩ := onPacketFailure_spec hf
      rcases hc with ⟨hp, _⟩ | ⟨_, rfl, _⟩
      · rw [(payout_frame hp).1]; exact keysFaithful_reduce hk hred
      · exact keysFaithful_reduce hk hred
  | timeout chan data sv tv f =>
    obtain ⟨s1, sub, hf, _, hc⟩ := exec_timeout_cases h
    obtain ⟨p, ch, rfl, hred, rfl, _⟩ := onPacketFailure_spec hf
    rcases hc with ⟨hp, _⟩ | ⟨_, rfl, _⟩
    · rw [(payout_frame hp).1]; exact keysFaithful_reduce hk hred
    · exact keysFaithful_reduce hk hred

/-- On every history satisfying the environment assumptions, from a well-formed state with faithful keys. -/
theorem runRaw_keysFaithful (w : World) (ops : List (Block × Op)) (henv : EnvAssumptions w.self w.tokens ops)
    (hwf : WellFormed w.st) (hk : KeysFaithful w.st.chan) :
    WellFormed (runRaw w ops).st ∧ KeysFaithful (runRaw w ops).st.chan := by
  rw [runRaw_eq_run w ops henv]
  induction ops generalizing w with
  | nil => exact ⟨hwf, hk⟩
  | cons o rest ih =>
    simp only [List.foldl_cons]
    obtain ⟨e1, e2⟩ := step_self_tokens w o.1 o.2
    apply ih
    · rw [e1, e2]; exact henv.tail
    · exact step_wellFormed o.1 o.2 hwf
    · unfold World.step
      split
      · rename_i w' out h
        refine exec_keysFaithful hwf hk ?_ h
        intro snd funds msg hop
        exact henv.native_not_cw20 o.1 snd funds msg (by rw [← hop]; exact List.mem_cons_self ..)
      · exact hk

/-- With distinct, faithful keys two entries of the books under the same *storage* key
`(channel, denom string)` are the same entry: the structural model has exactly one entry per storage key. -/
theorem entries_eq_of_same_storage_key {m : ChanMap} (hnd : AMap.NodupKeys m) (hk : KeysFaithful m)
    {e e' : Key × ChanState} (he : e ∈ m) (he' : e' ∈ m) (hc : e.1.1 = e'.1.1)
    (hr : e.1.2.render = e'.1.2.render) : e = e' := by
  have hd : e.1.2 = e'.1.2 :=
    render_inj (hk e.1 (List.mem_map_of_mem (f := (·.1)) he)) (hk e'.1 (List.mem_map_of_mem (f := (·.1)) he')) hr
  have hkey : e.1 = e'.1 := Prod.ext hc hd
  have h1 := get?_of_mem_nodup hnd he
  have h2 := get?_of_mem_nodup hnd he'
  rw [hkey, h2] at h1
  exact Prod.ext hkey (Option.some.inj h1).symm

/-! ## Ghost histories under the unguarded semantics -/

def stepGRaw (wg : World × Ghost) (blk : Block) (op : Op) : World × Ghost :=
  if admissible wg.2 op then
    match wg.1.execRaw blk op with
    | .ok (w', o) => (w', wg.2.update w' op o)
    | .error _ => wg
  else wg

/-- Histories with ghosts under the unguarded semantics. -/
def runGRaw (wg : World × Ghost) (ops : List (Block × Op)) : World × Ghost :=
  ops.foldl (fun wg o => stepGRaw wg o.1 o.2) wg

theorem stepG_self_tokens (wg : World × Ghost) (blk : Block) (op : Op) :
    (stepG wg blk op).1.self = wg.1.self ∧ (stepG wg blk op).1.tokens = wg.1.tokens := by
  unfold stepG
  split
  · split
    · rename_i w' o h; exact exec_self_tokens h
    · exact ⟨rfl, rfl⟩
  · exact ⟨rfl, rfl⟩

/-- On every history satisfying the environment assumptions the ghost histories of both semantics coincide. -/
theorem runGRaw_eq_runG (wg : World × Ghost) (ops : List (Block × Op))
    (henv : EnvAssumptions wg.1.self wg.1.tokens ops) : runGRaw wg ops = runG wg ops := by
  induction ops generalizing wg with
  | nil => rfl
  | cons o rest ih =>
    have hstep : stepGRaw wg o.1 o.2 = stepG wg o.1 o.2 := by
      unfold stepGRaw stepG
      rw [execRaw_eq_exec henv.head_guard]
      rfl
    simp only [runGRaw, runG, List.foldl_cons] at ih ⊢
    rw [hstep]
    apply ih
    obtain ⟨e1, e2⟩ := stepG_self_tokens wg o.1 o.2
    rw [e1, e2]
    exact henv.tail

end CwPlus.Ics20
