import CwPlus.Model.Cw3Fixed
import CwPlus.Lemmas.Cw3Core
/-!
# Lemmas about the cw3-fixed-multisig model and its runtime world

* inversion of `execute` into the four core operations (`execute_cases`), frame (`execute_frame`),
* induction principles: a world / state predicate preserved by every handler call is preserved by
  `dispatch`, `tx`, `step`, `run` (`dispatch_inv`, `tx_inv`, `run_state_inv`),
* the invariant `Inv` of the multisig state and its preservation.
-/
namespace CwPlus.Cw3Fixed
open CwPlus CwPlus.Cw3 CwPlus.Cw3Core

/-! ## handler inversion -/

/-- A successful handler call is one of the four core operations. -/
theorem execute_cases {s s' : State} {blk : Block} {snd : Addr} {m : ExecMsg} {out : List Msg}
    (h : execute s blk snd m = .ok (s', out)) :
    s'.cfg = s.cfg ∧ s'.voters = s.voters ∧
    ((∃ t d msgs latest w id, m = .propose t d msgs latest ∧ s.voters.get? snd = some w ∧ out = [] ∧
        Cw3Core.propose s.core blk snd w s.cfg.threshold s.cfg.totalWeight s.cfg.maxVotingPeriod t d msgs latest none
          = .ok (s'.core, id)) ∨
     (∃ id v, m = .vote id v ∧ out = [] ∧ Cw3Core.vote s.core blk snd id v (fun _ => s.voters.get? snd) = .ok s'.core) ∨
     (∃ id, m = .execute id ∧ Cw3Core.execute s.core blk id true = .ok (s'.core, out)) ∨
     (∃ id, m = .close id ∧ out = [] ∧ Cw3Core.close s.core blk id = .ok s'.core)) := by
  cases m with
  | propose t d msgs latest =>
    simp [execute, execPropose] at h
    obtain ⟨w, hw, c, ⟨id, hp⟩, rfl, rfl⟩ := h
    exact ⟨rfl, rfl, Or.inl ⟨t, d, msgs, latest, w, id, rfl, hw, rfl, hp⟩⟩
  | vote id v =>
    simp [execute, execVote] at h
    obtain ⟨c, hv, rfl, rfl⟩ := h
    exact ⟨rfl, rfl, Or.inr (Or.inl ⟨id, v, rfl, rfl, hv⟩)⟩
  | execute id =>
    simp [execute, execExecute] at h
    obtain ⟨c, he, rfl⟩ := h
    exact ⟨rfl, rfl, Or.inr (Or.inr (Or.inl ⟨id, rfl, he⟩))⟩
  | close id =>
    simp [execute, execClose] at h
    obtain ⟨c, hc, rfl, rfl⟩ := h
    exact ⟨rfl, rfl, Or.inr (Or.inr (Or.inr ⟨id, rfl, rfl, hc⟩))⟩

theorem execute_frame {s s' : State} {blk : Block} {snd : Addr} {m : ExecMsg} {out : List Msg}
    (h : execute s blk snd m = .ok (s', out)) : s'.cfg = s.cfg ∧ s'.voters = s.voters :=
  ⟨(execute_cases h).1, (execute_cases h).2.1⟩

/-! ## induction over the runtime -/

theorem leaf_ms {w w' : World} {m : Msg} (h : leaf w m = .ok w') : w'.ms = w.ms ∧ w'.self = w.self ∧ w'.sinkOk = w.sinkOk := by
  cases m <;> simp [leaf] at h
  · obtain ⟨b, _, rfl⟩ := h; simp
  · obtain ⟨_, rfl⟩ := h; simp

/-- A predicate on worlds preserved by every successful handler call (with the ghost log extended)
and by every leaf message is preserved by `dispatch`. -/
theorem dispatch_inv (Q : World → Prop) (blk : Block)
    (hcall : ∀ w snd em s' out, Q w → execute w.ms blk snd em = .ok (s', out) →
        Q { w with ms := s', log := w.log ++ [eventOf w.ms snd em] })
    (hleaf : ∀ w m w', Q w → leaf w m = .ok w' → Q w') :
    ∀ fuel w msgs w', Q w → dispatch fuel w blk msgs = .ok w' → Q w' := by
  intro fuel
  induction fuel with
  | zero =>
    intro w msgs w' hq h
    cases msgs with
    | nil => simp [dispatch] at h; subst h; exact hq
    | cons m rest => simp [dispatch] at h
  | succ fuel ih =>
    intro w msgs w' hq h
    cases msgs with
    | nil => simp [dispatch] at h; subst h; exact hq
    | cons m rest =>
      simp only [dispatch, Res.bind_ok] at h
      obtain ⟨w1, h1, h2⟩ := h
      refine ih w1 rest w' ?_ h2
      cases hs : selfCall m with
      | none => rw [hs] at h1; exact hleaf w m w1 hq h1
      | some em =>
        rw [hs] at h1
        simp only [Res.bind_ok] at h1
        obtain ⟨⟨s', out⟩, he, hd⟩ := h1
        exact ih _ out w1 (hcall w w.self em s' out hq he) hd

theorem tx_inv (Q : World → Prop) (blk : Block)
    (hcall : ∀ w snd em s' out, Q w → execute w.ms blk snd em = .ok (s', out) →
        Q { w with ms := s', log := w.log ++ [eventOf w.ms snd em] })
    (hleaf : ∀ w m w', Q w → leaf w m = .ok w' → Q w')
    {fuel : Nat} {w w' : World} {snd : Addr} {m : ExecMsg} (hq : Q w) (h : tx fuel w blk snd m = .ok w') : Q w' := by
  simp only [tx, Res.bind_ok] at h
  obtain ⟨⟨s', out⟩, he, hd⟩ := h
  exact dispatch_inv Q blk hcall hleaf fuel _ out w' (hcall w snd m s' out hq he) hd

/-- State predicates: preserved by every handler call ⇒ preserved by transactions. -/
theorem tx_state_inv (P : State → Prop) (blk : Block)
    (hP : ∀ s snd m s' out, P s → execute s blk snd m = .ok (s', out) → P s')
    {fuel : Nat} {w w' : World} {snd : Addr} {m : ExecMsg} (hq : P w.ms) (h : tx fuel w blk snd m = .ok w') : P w'.ms :=
  tx_inv (fun w => P w.ms) blk (fun w snd em s' out hq he => hP w.ms snd em s' out hq he)
    (fun w m w' hq hl => by rw [(leaf_ms hl).1]; exact hq) hq h

theorem step_ms_cases (fuel : Nat) (w : World) (op : Op) :
    (step fuel w op).ms = w.ms ∨ ∃ snd m w', op.act = .exec snd m ∧ tx fuel w op.blk snd m = .ok w' ∧ step fuel w op = w' := by
  unfold step
  split
  · rename_i snd m hact
    split
    · rename_i w' htx; exact Or.inr ⟨snd, m, w', hact, htx, rfl⟩
    · exact Or.inl rfl
  · split <;> exact Or.inl rfl
  · exact Or.inl rfl

theorem step_state_inv (P : State → Prop)
    (hP : ∀ blk s snd m s' out, P s → execute s blk snd m = .ok (s', out) → P s')
    (fuel : Nat) (w : World) (op : Op) (hq : P w.ms) : P (step fuel w op).ms := by
  rcases step_ms_cases fuel w op with e | ⟨snd, m, w', _, htx, e⟩
  · rw [e]; exact hq
  · rw [e]; exact tx_state_inv P op.blk (hP op.blk) hq htx

theorem run_state_inv (P : State → Prop)
    (hP : ∀ blk s snd m s' out, P s → execute s blk snd m = .ok (s', out) → P s')
    (fuel : Nat) (ops : List Op) : ∀ w, P w.ms → P (run fuel w ops).ms := by
  induction ops with
  | nil => intro w h; exact h
  | cons op rest ih => intro w h; exact ih _ (step_state_inv P hP fuel w op h)

/-- World predicates over whole histories. -/
theorem run_inv (Q : World → Prop) (fuel : Nat)
    (hstep : ∀ w op, Q w → Q (step fuel w op)) (ops : List Op) : ∀ w, Q w → Q (run fuel w ops) := by
  induction ops with
  | nil => intro w h; exact h
  | cons op rest ih => intro w h; exact ih _ (hstep w op h)

/-- World predicates: preserved by handler calls, leaf messages, funding and sink changes ⇒
preserved by every step of a history. -/
theorem step_inv (Q : World → Prop)
    (hcall : ∀ blk w snd em s' out, Q w → execute w.ms blk snd em = .ok (s', out) →
        Q { w with ms := s', log := w.log ++ [eventOf w.ms snd em] })
    (hleaf : ∀ w m w', Q w → leaf w m = .ok w' → Q w')
    (hbank : ∀ w b, Q w → Q { w with bank := b })
    (hsink : ∀ w b, Q w → Q { w with sinkOk := b })
    (fuel : Nat) (w : World) (op : Op) (hq : Q w) : Q (step fuel w op) := by
  unfold step
  split
  · split
    · rename_i w' htx; exact tx_inv Q op.blk (hcall op.blk) hleaf hq htx
    · exact hq
  · split
    · exact hbank _ _ hq
    · exact hq
  · exact hsink _ _ hq

/-! ## the invariant of the multisig state -/

/-- * the core is well-formed (`Cw3Core.WF`: ids, one ballot per key, tally = Σ ballots),
* `VOTERS` has no repeated key and the configured total is the sum of the voters' weights,
* every proposal carries the configured threshold and total, and no deposit,
* every ballot's weight is its voter's weight in `VOTERS`,
* a ballot has weight ≥ 1 unless it is the proposer's own Yes. -/
structure Inv (s : State) : Prop where
  wf : Cw3Core.WF s.core
  votersNodup : AMap.NodupKeys s.voters
  total : s.cfg.totalWeight = AMap.sum s.voters
  thrValid : s.cfg.threshold.validate s.cfg.totalWeight = .ok ()
  propCfg : ∀ id p, s.core.proposals.get? id = some p →
    p.totalWeight = s.cfg.totalWeight ∧ p.threshold = s.cfg.threshold ∧ p.deposit = none
  ballotWeight : ∀ id a b, (ballotsOf s.core id).get? a = some b → s.voters.get? a = some b.weight
  ballotPos : ∀ id p a b, s.core.proposals.get? id = some p → (ballotsOf s.core id).get? a = some b →
    1 ≤ b.weight ∨ (a = p.proposer ∧ b.vote = .yes)
  totalU64 : s.cfg.totalWeight ≤ U64_MAX

theorem sumWeights_eq : ∀ (l : List (AddrArg × Nat)) (acc t : Nat), sumWeights l acc = .ok t →
    t = acc + (l.map (·.2)).sum
  | [], acc, t, h => by simp [sumWeights] at h; subst h; simp
  | (a, w) :: rest, acc, t, h => by
    simp [sumWeights] at h
    obtain ⟨_, h⟩ := h
    have := sumWeights_eq rest (acc + w) t h
    simp; omega

theorem sumWeights_le : ∀ (l : List (AddrArg × Nat)) (acc t : Nat), sumWeights l acc = .ok t → acc ≤ U64_MAX → t ≤ U64_MAX
  | [], acc, t, h, ha => by simp [sumWeights] at h; subst h; exact ha
  | (a, w) :: rest, acc, t, h, _ => by
    simp [sumWeights] at h
    exact sumWeights_le rest (acc + w) t h.2 h.1

/-- The voter loop rejects repeated addresses, so every listed weight is stored under its own key. -/
theorem addVoters_sum : ∀ (l : List (AddrArg × Nat)) (m m' : AMap Addr Nat), addVoters l m = .ok m' →
    AMap.NodupKeys m → AMap.NodupKeys m' ∧ AMap.sum m' = AMap.sum m + (l.map (·.2)).sum
  | [], m, m', h, hn => by simp [addVoters] at h; subst h; simp [hn]
  | (a, w) :: rest, m, m', h, hn => by
    simp [addVoters] at h
    obtain ⟨_, hnone, h⟩ := h
    have ih := addVoters_sum rest (m.set a.text w) m' h (AMap.nodup_set hn)
    have hs := AMap.sum_set m a.text w
    simp [hnone] at hs
    refine ⟨ih.1, ?_⟩
    rw [ih.2, hs]; simp; omega

/-- Every accepted instantiation establishes the invariant; in particular
`total_weight = Σ voters` (duplicates are refused). -/
theorem instantiate_inv {m : InstMsg} {s : State} (h : instantiate m = .ok s) : Inv s := by
  simp [instantiate] at h
  obtain ⟨_, total, hsum, hval, voters, hadd, rfl⟩ := h
  have h1 := sumWeights_eq _ _ _ hsum
  have h2 := addVoters_sum _ _ _ hadd (by simp [AMap.NodupKeys, AMap.keys])
  refine ⟨wf_empty, h2.1, ?_, ?_, ?_, ?_, ?_, sumWeights_le _ _ _ hsum (by simp [U64_MAX])⟩
  · simp [h1, h2.2]
  · obtain ⟨u, hu⟩ := hval; cases u; simpa using hu
  · intro id p hp; simp [Core.empty] at hp
  · intro id a b hb; simp [Core.empty, ballotsOf] at hb
  · intro id p a b hp; simp [Core.empty] at hp

/-- Every successful handler call preserves the invariant. -/
theorem execute_inv {s s' : State} {blk : Block} {snd : Addr} {m : ExecMsg} {out : List Msg}
    (hi : Inv s) (h : execute s blk snd m = .ok (s', out)) : Inv s' := by
  obtain ⟨hcfg, hvot, hc⟩ := execute_cases h
  rcases hc with ⟨t, d, msgs, latest, w, id, _, hw, _, hp⟩ | ⟨id, v, _, _, hv⟩ | ⟨id, _, he⟩ | ⟨id, _, _, hcl⟩
  · -- propose
    have hwf := propose_wf hi.wf hp
    obtain ⟨expires, st, _, _, hid, _, hc'⟩ := propose_spec hp
    have hnone : s.core.proposals.get? id = none := hi.wf.fresh (by omega)
    have hb0 : ballotsOf s.core id = [] := hi.wf.noBallots id hnone
    refine ⟨hwf, hvot ▸ hi.votersNodup, hcfg ▸ hvot ▸ hi.total, hcfg ▸ hi.thrValid, ?_, ?_, ?_, hcfg ▸ hi.totalU64⟩
    · intro id' p' hp'
      rw [hc'] at hp'; simp only [AMap.get?_set] at hp'
      by_cases e : id = id'
      · simp only [e, if_true, Option.some.injEq] at hp'; subst hp'; simp [hcfg]
      · simp only [e, if_false] at hp'; rw [hcfg]; exact hi.propCfg id' p' hp'
    · intro id' a b hb
      rw [hc', ballotsOf_set] at hb
      rw [hvot]
      by_cases e : id = id'
      · simp only [e, if_true] at hb
        rw [← e, hb0] at hb
        simp [AMap.set, AMap.get?] at hb
        obtain ⟨rfl, rfl⟩ := hb
        simpa using hw
      · simp only [e, if_false] at hb; exact hi.ballotWeight id' a b hb
    · intro id' p' a b hp' hb
      rw [hc'] at hp'; simp only [AMap.get?_set] at hp'
      rw [hc', ballotsOf_set] at hb
      by_cases e : id = id'
      · simp only [e, if_true, Option.some.injEq] at hp' hb
        rw [← e, hb0] at hb
        simp [AMap.set, AMap.get?] at hb
        obtain ⟨rfl, rfl⟩ := hb
        subst hp'; simp
      · simp only [e, if_false] at hp' hb; exact hi.ballotPos id' p' a b hp' hb
  · -- vote
    have hwf := vote_wf hi.wf hv
    obtain ⟨p, w, votes, st, hp, _, _, hw, hw1, hnb, _, _, hc'⟩ := vote_spec hv
    refine ⟨hwf, hvot ▸ hi.votersNodup, hcfg ▸ hvot ▸ hi.total, hcfg ▸ hi.thrValid, ?_, ?_, ?_, hcfg ▸ hi.totalU64⟩
    · intro id' p' hp'
      rw [hc'] at hp'; simp only [AMap.get?_set] at hp'
      by_cases e : id = id'
      · simp only [e, if_true, Option.some.injEq] at hp'; subst hp'; rw [hcfg]; exact hi.propCfg id p hp
      · simp only [e, if_false] at hp'; rw [hcfg]; exact hi.propCfg id' p' hp'
    · intro id' a b hb
      rw [hc', ballotsOf_set] at hb
      rw [hvot]
      by_cases e : id = id'
      · simp only [e, if_true] at hb
        rw [AMap.get?_set] at hb
        by_cases ea : snd = a
        · simp only [ea, if_true, Option.some.injEq] at hb; subst hb; subst ea; simpa using hw
        · simp only [ea, if_false] at hb; exact hi.ballotWeight id' a b (e ▸ hb)
      · simp only [e, if_false] at hb; exact hi.ballotWeight id' a b hb
    · intro id' p' a b hp' hb
      rw [hc'] at hp'; simp only [AMap.get?_set] at hp'
      rw [hc', ballotsOf_set] at hb
      by_cases e : id = id'
      · simp only [e, if_true, Option.some.injEq] at hp' hb
        rw [AMap.get?_set] at hb
        subst hp'
        by_cases ea : snd = a
        · simp only [ea, if_true, Option.some.injEq] at hb; subst hb; exact Or.inl hw1
        · simp only [ea, if_false] at hb; exact hi.ballotPos id p a b hp (e ▸ hb)
      · simp only [e, if_false] at hp' hb; exact hi.ballotPos id' p' a b hp' hb
  · -- execute
    have hwf := execute_wf hi.wf he
    obtain ⟨p, hp, _, _, _, hc'⟩ := execute_spec he
    refine ⟨hwf, hvot ▸ hi.votersNodup, hcfg ▸ hvot ▸ hi.total, hcfg ▸ hi.thrValid, ?_, ?_, ?_, hcfg ▸ hi.totalU64⟩
    · intro id' p' hp'
      rw [hc'] at hp'; simp only [AMap.get?_set] at hp'
      by_cases e : id = id'
      · simp only [e, if_true, Option.some.injEq] at hp'; subst hp'; rw [hcfg]; exact hi.propCfg id p hp
      · simp only [e, if_false] at hp'; rw [hcfg]; exact hi.propCfg id' p' hp'
    · intro id' a b hb
      rw [hc'] at hb; rw [hvot]; exact hi.ballotWeight id' a b hb
    · intro id' p' a b hp' hb
      rw [hc'] at hp' hb; simp only [AMap.get?_set] at hp'
      by_cases e : id = id'
      · simp only [e, if_true, Option.some.injEq] at hp'; subst hp'; exact hi.ballotPos id p a b hp (e ▸ hb)
      · simp only [e, if_false] at hp'; exact hi.ballotPos id' p' a b hp' hb
  · -- close
    have hwf := close_wf hi.wf hcl
    obtain ⟨p, _, hp, _, _, _, _, _, _, hc'⟩ := close_spec hcl
    refine ⟨hwf, hvot ▸ hi.votersNodup, hcfg ▸ hvot ▸ hi.total, hcfg ▸ hi.thrValid, ?_, ?_, ?_, hcfg ▸ hi.totalU64⟩
    · intro id' p' hp'
      rw [hc'] at hp'; simp only [AMap.get?_set] at hp'
      by_cases e : id = id'
      · simp only [e, if_true, Option.some.injEq] at hp'; subst hp'; rw [hcfg]; exact hi.propCfg id p hp
      · simp only [e, if_false] at hp'; rw [hcfg]; exact hi.propCfg id' p' hp'
    · intro id' a b hb
      rw [hc'] at hb; rw [hvot]; exact hi.ballotWeight id' a b hb
    · intro id' p' a b hp' hb
      rw [hc'] at hp' hb; simp only [AMap.get?_set] at hp'
      by_cases e : id = id'
      · simp only [e, if_true, Option.some.injEq] at hp'; subst hp'; exact hi.ballotPos id p a b hp (e ▸ hb)
      · simp only [e, if_false] at hp'; exact hi.ballotPos id' p' a b hp' hb

/-- The stored tally never exceeds the proposal's total weight. -/
theorem Inv.tally_le {s : State} (hi : Inv s) {id : Nat} {p : Proposal} (hp : s.core.proposals.get? id = some p) :
    p.votes.yes + p.votes.no + p.votes.abstain + p.votes.veto ≤ p.totalWeight := by
  have h1 : weightSum (ballotsOf s.core id) ≤ p.totalWeight := by
    rw [(hi.propCfg id p hp).1, hi.total]
    exact weightSum_le_sum _ _ (hi.wf.nodup id) hi.votersNodup (fun a b hb => hi.ballotWeight id a b hb)
  rw [weightSum_eq] at h1
  rw [hi.wf.tally id p hp]
  simpa [tallyOf] using h1

/-! ## reachable worlds -/

/-- The worlds reachable from an accepted instantiation (any multisig address, any initial bank
balances, any sink setting) by any finite history of operations. -/
def Reachable (fuel : Nat) (w : World) : Prop :=
  ∃ (m : InstMsg) (s : State) (self : Addr) (bank : AMap (Addr × String) Nat) (sink : Bool) (ops : List Op),
    instantiate m = .ok s ∧ w = run fuel (World.init s self bank sink) ops

theorem reachable_inv {fuel : Nat} {w : World} (h : Reachable fuel w) : Inv w.ms := by
  obtain ⟨m, s, self, bank, sink, ops, hi, rfl⟩ := h
  exact run_state_inv Inv (fun _ _ _ _ _ _ hi h => execute_inv hi h) fuel ops _ (instantiate_inv hi)

/-! ## histories whose blocks never go back -/

def blockLe (a b : Block) : Prop := a.height ≤ b.height ∧ a.time ≤ b.time

/-- Worlds reachable by a history whose blocks never go back; the second argument is the block of
the last operation (any block for the freshly instantiated world). -/
inductive ReachableAt (fuel : Nat) : World → Block → Prop
  | init {m : InstMsg} {s : State} (self : Addr) (bank : AMap (Addr × String) Nat) (sink : Bool) (b : Block) :
      instantiate m = .ok s → ReachableAt fuel (World.init s self bank sink) b
  | step {w : World} {b : Block} (op : Op) : ReachableAt fuel w b → blockLe b op.blk → ReachableAt fuel (step fuel w op) op.blk

theorem ReachableAt.reachable {fuel : Nat} {w : World} {b : Block} (h : ReachableAt fuel w b) : Reachable fuel w := by
  induction h with
  | init self bank sink b hi => exact ⟨_, _, self, bank, sink, [], hi, rfl⟩
  | step op _ _ ih =>
    obtain ⟨m, s, self, bank, sink, ops, hi, rfl⟩ := ih
    exact ⟨m, s, self, bank, sink, ops ++ [op], hi, by simp [run, List.foldl_append]⟩

/-- A relation between the state at the start of a history and the state at its end, given that it
is reflexive, transitive and holds across every handler call from a state satisfying `Inv`. -/
theorem run_rel (R : State → State → Prop) (hrefl : ∀ s, R s s) (htrans : ∀ a b c, R a b → R b c → R a c)
    (hR : ∀ blk s snd m s' out, Inv s → execute s blk snd m = .ok (s', out) → R s s')
    (fuel : Nat) (ops : List Op) (w : World) (hi : Inv w.ms) : R w.ms (run fuel w ops).ms := by
  have := run_state_inv (fun s => Inv s ∧ R w.ms s)
    (fun blk s snd m s' out ⟨hi, hr⟩ h => ⟨execute_inv hi h, htrans _ _ _ hr (hR blk s snd m s' out hi h)⟩)
    fuel ops w ⟨hi, hrefl _⟩
  exact this.2

/-- The core only ever moves to a `Later` core. -/
theorem execute_later {s s' : State} {blk : Block} {snd : Addr} {m : ExecMsg} {out : List Msg}
    (hi : Inv s) (h : execute s blk snd m = .ok (s', out)) : Later s.core s'.core := by
  obtain ⟨_, _, hc⟩ := execute_cases h
  rcases hc with ⟨t, d, msgs, latest, w, id, _, hw, _, hp⟩ | ⟨id, v, _, _, hv⟩ | ⟨id, _, he⟩ | ⟨id, _, _, hcl⟩
  · exact propose_later hi.wf hp
  · exact vote_later hv
  · exact Cw3Core.execute_later he
  · exact close_later hi.wf hcl

end CwPlus.Cw3Fixed
