import CwPlus.Base.Json
/-!
Lemmas about the byte-level JSON model (`Base/Json.lean`): the scanner and `unescape` undo `escape` on
*every* byte string, decimal rendering is undone by `parseU128`, one iteration of the field loop.
Per-byte facts are proved by running all 256 bytes (`forall_uint8` + `decide`).
-/
namespace CwPlus.Json


theorem forall_uint8 {P : UInt8 → Prop} (h : ∀ n : Fin 256, P (UInt8.ofNat n.val)) : ∀ b, P b := by
  intro b
  have := h ⟨b.toNat, b.toNat_lt⟩
  simpa using this

def scanRun : Bool → Bytes → Option Bool
  | e, [] => some e
  | e, b :: r =>
    if b = 0x22 then (if e then scanRun false r else none)
    else if b = 0x5c then scanRun (!e) r else scanRun false r

theorem scanStr_append (chunk rest : Bytes) : ∀ (e e' : Bool), scanRun e chunk = some e' →
    scanStr e (chunk ++ rest) = (scanStr e' rest).map (fun p => (chunk ++ p.1, p.2)) := by
  induction chunk with
  | nil => intro e e' h; simp [scanRun] at h; subst h; simp
  | cons b r ih =>
    intro e e' h
    simp only [scanRun] at h
    simp only [List.cons_append, scanStr]
    split at h
    · split at h
      · rw [if_pos ‹_›, if_pos ‹_›, ih _ _ h]; simp [Option.map_map, Function.comp_def]
      · simp at h
    · split at h
      · rw [if_neg ‹_›, if_pos ‹_›, ih _ _ h]; simp [Option.map_map, Function.comp_def]
      · rw [if_neg ‹_›, if_neg ‹_›, ih _ _ h]; simp [Option.map_map, Function.comp_def]

set_option maxRecDepth 4000 in
theorem scanRun_escapeByte : ∀ b, scanRun false (escapeByte b) = some false := by
  apply forall_uint8; decide

theorem escape_cons (b : UInt8) (bs : Bytes) : escape (b :: bs) = escapeByte b ++ escape bs := by
  simp [escape]

theorem scanStr_escape (bs rest : Bytes) : scanStr false (escape bs ++ 0x22 :: rest) = some (escape bs, rest) := by
  induction bs with
  | nil => simp [escape, scanStr]
  | cons b r ih =>
    rw [escape_cons, List.append_assoc, scanStr_append _ _ false false (scanRun_escapeByte b), ih]
    simp

def urun : USt → Bytes → Except DecodeErr (USt × Bytes)
  | st, [] => .ok (st, [])
  | st, b :: r =>
    match ustep st b with
    | .error e => .error e
    | .ok (st', o) =>
      match urun st' r with
      | .error e => .error e
      | .ok (st'', o') => .ok (st'', o ++ o')

theorem unescapeGo_append (chunk rest : Bytes) : ∀ (st st' : USt) (o : Bytes), urun st chunk = .ok (st', o) →
    unescapeGo st (chunk ++ rest) =
      (match unescapeGo st' rest with | .error e => .error e | .ok tl => .ok (o ++ tl)) := by
  induction chunk with
  | nil => intro st st' o h; simp [urun] at h; obtain ⟨rfl, rfl⟩ := h; cases h' : unescapeGo st rest <;> simp [h']
  | cons b r ih =>
    intro st st' o h
    simp only [urun] at h
    simp only [List.cons_append, unescapeGo]
    cases hs : ustep st b with
    | error e => simp [hs] at h
    | ok p =>
      obtain ⟨st1, o1⟩ := p
      simp only [hs] at h
      cases hr : urun st1 r with
      | error e => simp [hr] at h
      | ok q =>
        obtain ⟨st2, o2⟩ := q
        simp only [hr] at h
        injection h with h; injection h with h1 h2; subst h1; subst h2
        simp only [ih _ _ _ hr]
        cases unescapeGo st2 rest <;> simp

set_option maxRecDepth 8000 in
theorem urun_escapeByte : ∀ b, urun {} (escapeByte b) = .ok ({}, [b]) := by
  apply forall_uint8; decide

theorem unescape_escape (bs : Bytes) : unescapeGo {} (escape bs) = .ok bs := by
  induction bs with
  | nil => simp [escape, unescapeGo]
  | cons b r ih =>
    have := unescapeGo_append (escapeByte b) (escape r) {} {} [b] (urun_escapeByte b)
    rw [escape_cons, this, ih]; simp

set_option maxRecDepth 8000 in
theorem escapeByte_plain : ∀ b, hasBackslash (escapeByte b) = false → escapeByte b = [b] := by
  apply forall_uint8; decide

theorem escape_plain (bs : Bytes) (h : hasBackslash (escape bs) = false) : escape bs = bs := by
  induction bs with
  | nil => simp [escape]
  | cons b r ih =>
    rw [escape_cons] at h ⊢
    simp only [hasBackslash, List.any_append, Bool.or_eq_false_iff] at h
    rw [escapeByte_plain b (by simpa [hasBackslash] using h.1), ih (by simpa [hasBackslash] using h.2)]
    simp

theorem strContent_escape (bs : Bytes) : strContent (escape bs) = .ok bs := by
  unfold strContent
  cases h : hasBackslash (escape bs) with
  | true => simp [unescape_escape]
  | false => simp [escape_plain bs h]

theorem parseStrBytes_escape (bs rest : Bytes) : parseStrBytes (escape bs ++ 0x22 :: rest) = .ok (bs, rest) := by
  simp [parseStrBytes, scanStr_escape, strContent_escape]

theorem strOfBytes_strBytes (s : String) : strOfBytes (strBytes s) = some s := by
  simp [strOfBytes, strBytes, String.fromUTF8?, String.toUTF8, s.isValidUTF8, String.fromUTF8]

theorem parseStrTok_encStr (s : String) (rest : Bytes) :
    parseStrTok (escape (strBytes s) ++ 0x22 :: rest) = .ok (s, rest) := by
  simp [parseStrTok, parseStrBytes_escape, strOfBytes_strBytes]

/-! ## decimal -/

def ofRev : List Nat → Nat
  | [] => 0
  | d :: ds => d + 10 * ofRev ds

theorem ofRev_revDigits : ∀ (f n : Nat), n < f → ofRev (revDigits f n) = n := by
  intro f
  induction f with
  | zero => intro n h; omega
  | succ f ih =>
    intro n h
    simp only [revDigits]
    split
    · simp [ofRev]
    · simp only [ofRev]
      rw [ih (n / 10) (by omega)]
      omega

theorem revDigits_lt : ∀ (f n : Nat), ∀ d ∈ revDigits f n, d < 10 := by
  intro f
  induction f with
  | zero => intro n d h; simp [revDigits] at h
  | succ f ih =>
    intro n d h
    simp only [revDigits] at h
    split at h
    · simp at h; omega
    · simp at h
      rcases h with h | h
      · omega
      · exact ih _ _ h

theorem revDigits_ne_nil (f n : Nat) : revDigits (f + 1) n ≠ [] := by
  simp only [revDigits]; split <;> simp

/-- the digit byte of `d < 10` -/
def digitByte (d : Nat) : UInt8 := 0x30 + d.toUInt8

theorem digitByte_facts : ∀ d, d < 10 →
    (digitByte d).toNat - 0x30 = d ∧ isDigit (digitByte d) = true ∧ digitByte d ≠ 0x22 ∧ digitByte d ≠ 0x5c ∧
      digitByte d ≠ 0x2b := by
  decide

theorem decDigits_eq (n : Nat) : decDigits n = ((revDigits (n + 1) n).reverse).map digitByte := rfl

theorem digitsVal_rev (l : List Nat) (h : ∀ d ∈ l, d < 10) :
    digitsVal ((l.reverse).map digitByte) = ofRev l := by
  induction l with
  | nil => simp [digitsVal, ofRev]
  | cons d ds ih =>
    have hd := (digitByte_facts d (h d (by simp))).1
    have := ih (fun x hx => h x (by simp [hx]))
    simp only [digitsVal] at this ⊢
    simp only [List.reverse_cons, List.map_append, List.foldl_append, List.map_cons, List.map_nil, List.foldl_cons,
      List.foldl_nil, this, hd, ofRev]
    omega

theorem digitsVal_decDigits (n : Nat) : digitsVal (decDigits n) = n := by
  rw [decDigits_eq, digitsVal_rev _ (revDigits_lt _ _), ofRev_revDigits _ _ (by omega)]

theorem decDigits_mem (n : Nat) : ∀ b ∈ decDigits n,
    isDigit b = true ∧ b ≠ 0x22 ∧ b ≠ 0x5c ∧ b ≠ 0x2b := by
  intro b hb
  rw [decDigits_eq] at hb
  simp only [List.mem_map, List.mem_reverse] at hb
  obtain ⟨d, hd, rfl⟩ := hb
  exact (digitByte_facts d (revDigits_lt _ _ d hd)).2

theorem decDigits_ne_nil (n : Nat) : decDigits n ≠ [] := by
  rw [decDigits_eq]
  simp [revDigits_ne_nil]

theorem parseU128_decDigits (n : Nat) (h : n < 2 ^ 128) : parseU128 (decDigits n) = some n := by
  have hne := decDigits_ne_nil n
  have hm := decDigits_mem n
  have hall : (decDigits n).all isDigit = true := by
    simp only [List.all_eq_true]; intro b hb; exact (hm b hb).1
  unfold parseU128
  cases hd : decDigits n with
  | nil => exact absurd hd hne
  | cons b r =>
    have hb : b ≠ 0x2b := (hm b (by simp [hd])).2.2.2
    simp only [if_neg hb]
    rw [← hd, hall, digitsVal_decDigits]
    simp [h, hd]

theorem scanRun_plain (l : Bytes) (h : ∀ b ∈ l, b ≠ 0x22 ∧ b ≠ 0x5c) : scanRun false l = some false := by
  induction l with
  | nil => rfl
  | cons b r ih =>
    have hb := h b (by simp)
    simp only [scanRun, if_neg hb.1, if_neg hb.2]
    exact ih (fun x hx => h x (by simp [hx]))

theorem scanStr_plain (l rest : Bytes) (h : ∀ b ∈ l, b ≠ 0x22 ∧ b ≠ 0x5c) :
    scanStr false (l ++ 0x22 :: rest) = some (l, rest) := by
  rw [scanStr_append _ _ false false (scanRun_plain l h)]
  simp [scanStr]

theorem hasBackslash_plain (l : Bytes) (h : ∀ b ∈ l, b ≠ 0x5c) : hasBackslash l = false := by
  simp only [hasBackslash, List.any_eq_false]
  intro b hb; simpa using h b hb

theorem skipWs_cons (b : UInt8) (r : Bytes) (h : isWs b = false) : skipWs (b :: r) = b :: r := by
  simp [skipWs, h]

theorem parseAmountValue_amountTok (n : Nat) (rest : Bytes) (h : n < 2 ^ 128) :
    parseAmountValue (amountTok n ++ rest) = .ok (n, rest) := by
  have hm := decDigits_mem n
  have h1 : scanStr false (decDigits n ++ 0x22 :: rest) = some (decDigits n, rest) :=
    scanStr_plain _ _ (fun b hb => ⟨(hm b hb).2.1, (hm b hb).2.2.1⟩)
  have h2 : hasBackslash (decDigits n) = false := hasBackslash_plain _ (fun b hb => (hm b hb).2.2.1)
  simp [parseAmountValue, amountTok, skipWs_cons, isWs, parseStrBytes, h1, strContent, h2,
    parseU128_decDigits n h]

theorem parseStringValue_encStr (s : String) (rest : Bytes) :
    parseStringValue (encStr s ++ rest) = .ok (s, rest) := by
  simp [parseStringValue, encStr, skipWs_cons, isWs, parseStrTok_encStr]

theorem parseOptStringValue_encStr (s : String) (rest : Bytes) :
    parseOptStringValue (encStr s ++ rest) = .ok (some s, rest) := by
  have := parseStringValue_encStr s rest
  simp only [encStr, List.cons_append, List.append_assoc, List.nil_append] at this
  simp only [parseOptStringValue, encStr, List.cons_append, List.append_assoc, List.nil_append]
  rw [skipWs_cons _ _ (by decide)]
  simp [this]

/-! ## one iteration of the field loop -/

theorem nextKey_first (r : Bytes) : nextKey true (0x22 :: r) = .ok (some r, []) := by
  simp [nextKey, keyAt, skipWs_cons, isWs]

theorem nextKey_comma (r : Bytes) : nextKey false (0x2c :: 0x22 :: r) = .ok (some r, []) := by
  simp [nextKey, keyAt, skipWs_cons, isWs]

theorem nextKey_end (first : Bool) (r : Bytes) : nextKey first (0x7d :: r) = .ok (none, 0x7d :: r) := by
  simp [nextKey, skipWs_cons, isWs]

theorem parseColon_colon (r : Bytes) : parseColon (0x3a :: r) = .ok r := by
  simp [parseColon, skipWs_cons, isWs]

/-- a field whose key is the string `k`, at the start of the object -/
theorem parseFields_first (f d : Nat) (acc acc' : Acc) (k : String) (val rest : Bytes)
    (hv : fieldValue f d acc k (val ++ rest) = .ok (acc', rest)) :
    parseFields (f + 1) d true acc (field (escape (strBytes k)) val ++ rest) = parseFields f d false acc' rest := by
  simp only [field, List.cons_append, List.append_assoc]
  rw [parseFields, nextKey_first]
  simp only [parseStrTok_encStr, parseColon_colon, hv]

/-- … after a comma -/
theorem parseFields_next (f d : Nat) (acc acc' : Acc) (k : String) (val rest : Bytes)
    (hv : fieldValue f d acc k (val ++ rest) = .ok (acc', rest)) :
    parseFields (f + 1) d false acc (0x2c :: (field (escape (strBytes k)) val ++ rest)) =
      parseFields f d false acc' rest := by
  simp only [field, List.cons_append, List.append_assoc]
  rw [parseFields, nextKey_comma]
  simp only [parseStrTok_encStr, parseColon_colon, hv]

theorem parseFields_end (f d : Nat) (first : Bool) (acc : Acc) (rest : Bytes) :
    parseFields (f + 1) d first acc (0x7d :: rest) = .ok (acc, 0x7d :: rest) := by
  rw [parseFields, nextKey_end]

theorem keys_escape :
    keyAmount = escape (strBytes "amount") ∧ keyDenom = escape (strBytes "denom") ∧
    keyReceiver = escape (strBytes "receiver") ∧ keySender = escape (strBytes "sender") ∧
    keyMemo = escape (strBytes "memo") ∧ keyResult = escape (strBytes "result") ∧
    keyError = escape (strBytes "error") := by decide

/-! ## the encoders write UTF-8 -/

theorem strBytes_append (s t : String) : strBytes (s ++ t) = strBytes s ++ strBytes t := by
  simp [strBytes, String.toUTF8, String.toByteArray_append]

theorem strBytes_singleton (c : Char) : strBytes (String.singleton c) = String.utf8EncodeChar c := by
  simp [strBytes, String.toUTF8, String.toByteArray_singleton, List.utf8Encode_singleton]

theorem strBytes_ofList_cons (c : Char) (l : List Char) :
    strBytes (String.ofList (c :: l)) = String.utf8EncodeChar c ++ strBytes (String.ofList l) := by
  simp only [strBytes, String.toUTF8, String.toByteArray_ofList]
  rw [List.utf8Encode_cons, List.utf8Encode_singleton]
  simp

/-- `bs` is the UTF-8 encoding of a string -/
def IsText (bs : Bytes) : Prop := ∃ s : String, strBytes s = bs

theorem IsText.append {a b : Bytes} (ha : IsText a) (hb : IsText b) : IsText (a ++ b) := by
  obtain ⟨s, rfl⟩ := ha; obtain ⟨t, rfl⟩ := hb
  exact ⟨s ++ t, strBytes_append s t⟩

theorem IsText.nil : IsText [] := ⟨"", by decide⟩

def asciiStr (bs : Bytes) : String := String.ofList (bs.map fun x => Char.ofNat x.toNat)

set_option maxRecDepth 100000 in
theorem strBytes_asciiStr_single : ∀ b : UInt8, b < 0x80 → strBytes (asciiStr [b]) = [b] := by
  apply forall_uint8; decide

set_option maxRecDepth 100000 in
theorem strBytes_asciiStr_escapeByte : ∀ b : UInt8, b < 0x80 → strBytes (asciiStr (escapeByte b)) = escapeByte b := by
  apply forall_uint8; decide

theorem isText_ascii (l : Bytes) (h : ∀ b ∈ l, b < 0x80) : IsText l := by
  induction l with
  | nil => exact IsText.nil
  | cons b r ih =>
    have : b :: r = [b] ++ r := rfl
    rw [this]
    exact IsText.append ⟨_, strBytes_asciiStr_single b (h b (by simp))⟩ (ih fun x hx => h x (by simp [hx]))

set_option maxRecDepth 100000 in
theorem escapeByte_high : ∀ b : UInt8, 0x80 ≤ b → escapeByte b = [b] := by
  apply forall_uint8; decide

theorem escape_append (a b : Bytes) : escape (a ++ b) = escape a ++ escape b := by simp [escape]

set_option maxRecDepth 100000 in
theorem high_bits : ∀ x : UInt8, (0x80 ≤ x &&& 0x3f ||| 0x80) ∧ (0x80 ≤ x &&& 0x1f ||| 0xc0) ∧
    (0x80 ≤ x &&& 0x0f ||| 0xe0) ∧ (0x80 ≤ x &&& 0x07 ||| 0xf0) := by
  apply forall_uint8; decide

theorem isText_escape_char (c : Char) : IsText (escape (String.utf8EncodeChar c)) := by
  have hself : IsText (String.utf8EncodeChar c) := ⟨String.singleton c, strBytes_singleton c⟩
  rcases c.utf8Size_eq with h | h | h | h
  · rw [String.utf8EncodeChar_eq_singleton h]
    have hlt : c.val.toUInt8 < 0x80 := by
      have : c.val.toNat ≤ 127 := by
        have := (Char.utf8Size_eq_one_iff).1 h
        simpa [UInt32.le_iff_toNat_le] using this
      rw [UInt8.lt_iff_toNat_lt, UInt32.toNat_toUInt8]
      have : (128 : UInt8).toNat = 128 := rfl
      omega
    have : escape [c.val.toUInt8] = escapeByte c.val.toUInt8 := by simp [escape]
    rw [this]
    exact ⟨_, strBytes_asciiStr_escapeByte _ hlt⟩
  · rw [String.utf8EncodeChar_eq_cons_cons h] at hself ⊢
    simp only [escape, List.flatMap_cons, List.flatMap_nil, List.append_nil]
    rw [escapeByte_high _ (high_bits _).2.1, escapeByte_high _ (high_bits _).1]
    exact hself
  · rw [String.utf8EncodeChar_eq_cons_cons_cons h] at hself ⊢
    simp only [escape, List.flatMap_cons, List.flatMap_nil, List.append_nil]
    rw [escapeByte_high _ (high_bits _).2.2.1, escapeByte_high _ (high_bits _).1, escapeByte_high _ (high_bits _).1]
    exact hself
  · rw [String.utf8EncodeChar_eq_cons_cons_cons_cons h] at hself ⊢
    simp only [escape, List.flatMap_cons, List.flatMap_nil, List.append_nil]
    rw [escapeByte_high _ (high_bits _).2.2.2, escapeByte_high _ (high_bits _).1, escapeByte_high _ (high_bits _).1,
      escapeByte_high _ (high_bits _).1]
    exact hself

theorem isText_escape (s : String) : IsText (escape (strBytes s)) := by
  rw [← String.ofList_toList (s := s)]
  generalize s.toList = l
  induction l with
  | nil => exact ⟨"", by decide⟩
  | cons c r ih =>
    rw [strBytes_ofList_cons, escape_append]
    exact IsText.append (isText_escape_char c) ih


theorem isText_quote : IsText [0x22] := isText_ascii _ (by decide)

theorem isText_encStr (s : String) : IsText (encStr s) := by
  have : encStr s = [0x22] ++ (escape (strBytes s) ++ [0x22]) := rfl
  rw [this]
  exact IsText.append isText_quote (IsText.append (isText_escape s) isText_quote)

set_option maxRecDepth 100000 in
theorem isDigit_lt : ∀ b : UInt8, isDigit b = true → b < 0x80 := by
  apply forall_uint8; decide

theorem isText_amountTok (n : Nat) : IsText (amountTok n) := by
  have : amountTok n = [0x22] ++ (decDigits n ++ [0x22]) := rfl
  rw [this]
  exact IsText.append isText_quote (IsText.append
    (isText_ascii _ fun b hb => isDigit_lt b (decDigits_mem n b hb).1) isText_quote)

theorem isText_field (key val : Bytes) (hk : ∀ b ∈ key, b < 0x80) (hv : IsText val) : IsText (field key val) := by
  have : field key val = [0x22] ++ (key ++ ([0x22, 0x3a] ++ val)) := rfl
  rw [this]
  exact IsText.append isText_quote (IsText.append (isText_ascii _ hk) (IsText.append (isText_ascii _ (by decide)) hv))

theorem isText_encodePacketBytes (p : Packet) : IsText (encodePacketBytes p) := by
  have hc : IsText [0x2c] := isText_ascii _ (by decide)
  have hb : IsText [0x7d] := isText_ascii _ (by decide)
  have ho : IsText [0x7b] := isText_ascii _ (by decide)
  have cons : ∀ (b : UInt8) (l : Bytes), b :: l = [b] ++ l := fun _ _ => rfl
  unfold encodePacketBytes
  rw [cons 0x7b, cons 0x2c, cons 0x2c, cons 0x2c]
  refine IsText.append ho (IsText.append (isText_field _ _ (by decide) (isText_amountTok _)) (IsText.append hc
    (IsText.append (isText_field _ _ (by decide) (isText_encStr _)) (IsText.append hc
      (IsText.append (isText_field _ _ (by decide) (isText_encStr _)) (IsText.append hc
        (IsText.append (isText_field _ _ (by decide) (isText_encStr _)) (IsText.append ?_ hb))))))))
  cases p.memo with
  | none => exact IsText.nil
  | some m =>
    simp only
    rw [cons 0x2c]
    exact IsText.append hc (isText_field _ _ (by decide) (isText_encStr _))

theorem isText_encodeAckBytes (a : Ack) : IsText (encodeAckBytes a) := by
  have hb : IsText [0x7d] := isText_ascii _ (by decide)
  have ho : IsText [0x7b] := isText_ascii _ (by decide)
  have cons : ∀ (b : UInt8) (l : Bytes), b :: l = [b] ++ l := fun _ _ => rfl
  cases a with
  | success => exact isText_ascii _ (by decide)
  | error t =>
    unfold encodeAckBytes
    rw [cons 0x7b]
    exact IsText.append ho (IsText.append (isText_field _ _ (by decide) (isText_encStr _)) hb)

theorem strBytes_of_strOfBytes {bs : Bytes} {s : String} (h : strOfBytes bs = some s) : strBytes s = bs := by
  simp only [strOfBytes, String.fromUTF8?] at h
  split at h
  · injection h with h; subst h; simp [strBytes, String.toUTF8, String.fromUTF8]
  · simp at h

theorem strBytes_bytesToString {bs : Bytes} (h : IsText bs) : strBytes (bytesToString bs) = bs := by
  obtain ⟨s, rfl⟩ := h
  simp [bytesToString, strOfBytes_strBytes]

end CwPlus.Json
