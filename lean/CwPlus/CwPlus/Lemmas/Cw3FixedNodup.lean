import CwPlus.Lemmas.Cw3Fixed
import CwPlus.Lemmas.Cw3CoreNodup
/-!
# cw3-fixed-multisig: `PROPOSALS` never holds an id twice

Established by `instantiate` (empty core), preserved by every handler call, hence true in every reachable
world (`reachable_nodup`).  `VOTERS` and the ballots of a proposal are covered by `Inv.votersNodup` and
`WF.nodup` (`Lemmas/Cw3Fixed.lean`, `Lemmas/Cw3Core.lean`).  Core only.
-/
namespace CwPlus.Cw3Fixed
open CwPlus CwPlus.Cw3 CwPlus.Cw3Core

theorem instantiate_nodup {m : InstMsg} {s : State} (h : instantiate m = .ok s) :
    AMap.NodupKeys s.core.proposals := by
  simp [instantiate] at h
  obtain ⟨_, total, _, _, voters, _, rfl⟩ := h
  exact Cw3Core.nodup_empty

theorem execute_nodup {s s' : State} {blk : Block} {snd : Addr} {m : ExecMsg} {out : List Msg}
    (hn : AMap.NodupKeys s.core.proposals) (h : execute s blk snd m = .ok (s', out)) :
    AMap.NodupKeys s'.core.proposals := by
  obtain ⟨_, _, hc⟩ := execute_cases h
  rcases hc with ⟨t, d, msgs, latest, w, id, _, _, _, hp⟩ | ⟨id, v, _, _, hv⟩ | ⟨id, _, he⟩ | ⟨id, _, _, hcl⟩
  · exact propose_nodup hp hn
  · exact vote_nodup hv hn
  · exact Cw3Core.execute_nodup he hn
  · exact close_nodup hcl hn

/-- In every reachable world the proposals map holds every id at most once. -/
theorem reachable_nodup {fuel : Nat} {w : World} (h : Reachable fuel w) : AMap.NodupKeys w.ms.core.proposals := by
  obtain ⟨m, s, self, bank, sink, ops, hi, rfl⟩ := h
  exact run_state_inv (fun s => AMap.NodupKeys s.core.proposals) (fun _ _ _ _ _ _ hn h => execute_nodup hn h)
    fuel ops _ (instantiate_nodup hi)

end CwPlus.Cw3Fixed
