import CwPlus.Base.Json
/-!
The fuel of the JSON decoder is never exhausted: every loop iteration / recursive call of `parseFields`,
`skipValue`, `skipSeq`, `skipMap` is preceded by the consumption of at least one input byte, and `fuelFor` hands
out more than two units per byte.  (`decodePacketBytes_ne_fuel`; `decodeAckBytes` has no fuel at all.)
-/
namespace CwPlus.Json

theorem skipWs_length (bs : Bytes) : (skipWs bs).length ≤ bs.length := by
  induction bs with
  | nil => simp [skipWs]
  | cons b r ih => simp only [skipWs]; split <;> simp <;> omega

theorem skipWs_cons_length {bs : Bytes} {b : UInt8} {r : Bytes} (h : skipWs bs = b :: r) : r.length < bs.length := by
  have := skipWs_length bs
  rw [h] at this; simp at this; omega

theorem scanStr_length : ∀ (bs : Bytes) (e : Bool) (raw rest : Bytes), scanStr e bs = some (raw, rest) →
    rest.length < bs.length := by
  intro bs
  induction bs with
  | nil => intro e raw rest h; simp [scanStr] at h
  | cons b r ih =>
    intro e raw rest h
    simp only [scanStr] at h
    split at h
    · split at h
      · simp only [Option.map_eq_some_iff] at h
        obtain ⟨p, hp, heq⟩ := h
        have := ih false p.1 p.2 (by simpa using hp)
        simp at heq; obtain ⟨_, rfl⟩ := heq
        simp; omega
      · simp at h; obtain ⟨_, rfl⟩ := h; simp
    · split at h
      all_goals
        simp only [Option.map_eq_some_iff] at h
        obtain ⟨p, hp, heq⟩ := h
        have := ih _ p.1 p.2 (by simpa using hp)
        simp at heq; obtain ⟨_, rfl⟩ := heq
        simp; omega

theorem ustep_ne_fuel (st : USt) (b : UInt8) : ustep st b ≠ .error .fuel := by
  intro h
  unfold ustep at h
  repeat' split at h
  all_goals try (first | (injection h with h; cases h; done) | (cases h; done))
  all_goals
    dsimp only at h
    repeat' split at h
    all_goals first | (injection h with h; cases h; done) | (cases h; done)

theorem unescapeGo_ne_fuel : ∀ (bs : Bytes) (st : USt), unescapeGo st bs ≠ .error .fuel := by
  intro bs
  induction bs with
  | nil =>
    intro st h
    simp only [unescapeGo] at h
    repeat' split at h
    all_goals cases h
  | cons b r ih =>
    intro st
    simp only [unescapeGo]
    have h1 := ustep_ne_fuel st b
    cases hs : ustep st b with
    | error e => (try simp only []); intro h; injection h with h; subst h; exact h1 hs
    | ok p =>
      obtain ⟨st', out⟩ := p
      (try simp only [])
      have h2 := ih st'
      cases hr : unescapeGo st' r with
      | error e => (try simp only []); intro h; injection h with h; subst h; exact h2 hr
      | ok tl => simp

theorem strContent_ne_fuel (raw : Bytes) : strContent raw ≠ .error .fuel := by
  unfold strContent
  split
  · exact unescapeGo_ne_fuel raw {}
  · simp

theorem parseStrBytes_spec (bs : Bytes) :
    parseStrBytes bs ≠ .error .fuel ∧ ∀ c rest, parseStrBytes bs = .ok (c, rest) → rest.length < bs.length := by
  unfold parseStrBytes
  cases hs : scanStr false bs with
  | none => simp
  | some p =>
    obtain ⟨raw, rest⟩ := p
    have hl := scanStr_length bs false raw rest hs
    (try simp only [])
    have := strContent_ne_fuel raw
    cases hu : strContent raw with
    | error e => (try simp only []); exact ⟨fun h => by injection h with h; subst h; exact this hu, by simp⟩
    | ok c => (try simp only []); refine ⟨by simp, ?_⟩; intro c' rest' h; simp at h; obtain ⟨_, rfl⟩ := h; exact hl

theorem parseStrTok_spec (bs : Bytes) :
    parseStrTok bs ≠ .error .fuel ∧ ∀ s rest, parseStrTok bs = .ok (s, rest) → rest.length < bs.length := by
  obtain ⟨h1, h2⟩ := parseStrBytes_spec bs
  unfold parseStrTok
  cases hp : parseStrBytes bs with
  | error e => (try simp only []); exact ⟨fun h => by injection h with h; subst h; exact h1 hp, by simp⟩
  | ok p =>
    obtain ⟨c, rest⟩ := p
    (try simp only [])
    cases strOfBytes c with
    | none => simp
    | some s => (try simp only []); refine ⟨by simp, ?_⟩; intro s' r' h; simp at h; obtain ⟨_, rfl⟩ := h; exact h2 c _ hp

theorem parseStringValue_spec (bs : Bytes) :
    parseStringValue bs ≠ .error .fuel ∧ ∀ s rest, parseStringValue bs = .ok (s, rest) → rest.length < bs.length := by
  unfold parseStringValue
  cases hw : skipWs bs with
  | nil => simp
  | cons b r =>
    have hl := skipWs_cons_length hw
    (try simp only [])
    split
    · obtain ⟨h1, h2⟩ := parseStrTok_spec r
      exact ⟨h1, fun s rest h => by have := h2 s rest h; omega⟩
    · simp

theorem parseColon_spec (bs : Bytes) :
    parseColon bs ≠ .error .fuel ∧ ∀ rest, parseColon bs = .ok rest → rest.length < bs.length := by
  unfold parseColon
  cases hw : skipWs bs with
  | nil => simp
  | cons b r =>
    have hl := skipWs_cons_length hw
    (try simp only [])
    split
    · refine ⟨by simp, ?_⟩; intro rest h; simp at h; subst h; exact hl
    · simp

theorem parseAmountValue_spec (bs : Bytes) :
    parseAmountValue bs ≠ .error .fuel ∧ ∀ v rest, parseAmountValue bs = .ok (v, rest) → rest.length < bs.length := by
  unfold parseAmountValue
  cases hw : skipWs bs with
  | nil => simp
  | cons b r =>
    have hl := skipWs_cons_length hw
    (try simp only [])
    split
    · obtain ⟨h1, h2⟩ := parseStrBytes_spec r
      cases hp : parseStrBytes r with
      | error e => (try simp only []); exact ⟨fun h => by injection h with h; subst h; exact h1 hp, by simp⟩
      | ok p =>
        obtain ⟨c, rest⟩ := p
        (try simp only [])
        cases parseU128 c with
        | none => simp
        | some v =>
          (try simp only []); refine ⟨by simp, ?_⟩; intro v' r' h; simp at h; obtain ⟨_, rfl⟩ := h
          have := h2 c _ hp; omega
    · simp

theorem parseIdent_spec : ∀ (ident bs : Bytes),
    parseIdent ident bs ≠ .error .fuel ∧ ∀ rest, parseIdent ident bs = .ok rest → rest.length ≤ bs.length := by
  intro ident
  induction ident with
  | nil => intro bs; simp [parseIdent]
  | cons c cs ih =>
    intro bs
    cases bs with
    | nil => simp [parseIdent]
    | cons b r =>
      simp only [parseIdent]
      split
      · obtain ⟨h1, h2⟩ := ih r
        exact ⟨h1, fun rest h => by have := h2 rest h; simp; omega⟩
      · simp

theorem parseOptStringValue_spec (bs : Bytes) :
    parseOptStringValue bs ≠ .error .fuel ∧
      ∀ v rest, parseOptStringValue bs = .ok (v, rest) → rest.length < bs.length := by
  unfold parseOptStringValue
  cases hw : skipWs bs with
  | nil => simp
  | cons b r =>
    have hl := skipWs_cons_length hw
    (try simp only [])
    split
    · obtain ⟨h1, h2⟩ := parseIdent_spec [0x75, 0x6c, 0x6c] r
      cases hp : parseIdent [0x75, 0x6c, 0x6c] r with
      | error e => (try simp only []); exact ⟨fun h => by injection h with h; subst h; exact h1 hp, by simp⟩
      | ok rest =>
        (try simp only []); refine ⟨by simp, ?_⟩; intro v' r' h; simp at h; obtain ⟨_, rfl⟩ := h
        have := h2 _ hp; omega
    · obtain ⟨h1, h2⟩ := parseStringValue_spec (b :: r)
      cases hp : parseStringValue (b :: r) with
      | error e => (try simp only []); exact ⟨fun h => by injection h with h; subst h; exact h1 hp, by simp⟩
      | ok p =>
        obtain ⟨s, rest⟩ := p
        (try simp only []); refine ⟨by simp, ?_⟩; intro v' r' h; simp at h; obtain ⟨_, rfl⟩ := h
        have := h2 _ _ hp; simp at this; omega

theorem chomp_spec : ∀ (bs : Bytes),
    chomp bs ≠ .error .fuel ∧ ∀ rest, chomp bs = .ok rest → rest.length ≤ bs.length := by
  intro bs
  induction bs with
  | nil => simp [chomp]
  | cons b r ih =>
    simp only [chomp]
    split
    · simp
    · exact ⟨ih.1, fun rest h => by have := ih.2 rest h; simp; omega⟩

theorem keyAt_spec (l : Bytes) :
    keyAt l ≠ .error .fuel ∧ (∀ r x, keyAt l = .ok (some r, x) → r.length < l.length) ∧
      (∀ rest, keyAt l ≠ .ok (none, rest)) := by
  cases l with
  | nil => simp [keyAt]
  | cons c r2 =>
    simp only [keyAt]
    split
    · refine ⟨by simp, ?_, by simp⟩
      intro r x h; simp at h; obtain ⟨rfl, _⟩ := h; simp
    · split <;> simp

theorem nextKey_spec (first : Bool) (bs : Bytes) :
    nextKey first bs ≠ .error .fuel ∧
    (∀ r x, nextKey first bs = .ok (some r, x) → r.length < bs.length) ∧
    (∀ rest, nextKey first bs = .ok (none, rest) → 0 < rest.length ∧ rest.length ≤ bs.length) := by
  unfold nextKey
  cases hw : skipWs bs with
  | nil => simp
  | cons b r =>
    have hl := skipWs_cons_length hw
    have hle : (b :: r).length ≤ bs.length := by rw [← hw]; exact skipWs_length bs
    (try simp only [])
    split
    · refine ⟨by simp, by simp, ?_⟩
      intro rest h; simp at h; subst h; simp; omega
    · split
      · obtain ⟨k1, k2, k3⟩ := keyAt_spec (skipWs r)
        have := skipWs_length r
        exact ⟨k1, fun r' x h => by have := k2 r' x h; omega, fun rest h => absurd h (k3 rest)⟩
      · split
        · obtain ⟨k1, k2, k3⟩ := keyAt_spec (b :: r)
          exact ⟨k1, fun r' x h => by have := k2 r' x h; omega, fun rest h => absurd h (k3 rest)⟩
        · simp

theorem seqPos_spec (first : Bool) (b : UInt8) (r : Bytes) :
    seqPos first b r ≠ .error .fuel ∧ ∀ l f', seqPos first b r = .ok (l, f') → l.length ≤ (b :: r).length := by
  unfold seqPos
  split
  · refine ⟨by simp, ?_⟩; intro l f' h; simp at h; obtain ⟨rfl, _⟩ := h
    have := skipWs_length r; simp; omega
  · split
    · refine ⟨by simp, ?_⟩; intro l f' h; simp at h; obtain ⟨rfl, _⟩ := h; simp
    · simp

/-- the three skipping functions: enough fuel ⇒ no fuel error, and the rest is no longer than the input -/
theorem skip_spec : ∀ f : Nat,
    (∀ d bs, 2 * bs.length + 1 ≤ f →
      skipValue f d bs ≠ .error .fuel ∧ ∀ rest, skipValue f d bs = .ok rest → rest.length < bs.length) ∧
    (∀ d first bs, 2 * bs.length + 2 ≤ f →
      skipSeq f d first bs ≠ .error .fuel ∧ ∀ rest, skipSeq f d first bs = .ok rest → rest.length ≤ bs.length) ∧
    (∀ d first bs, 2 * bs.length + 2 ≤ f →
      skipMap f d first bs ≠ .error .fuel ∧ ∀ rest, skipMap f d first bs = .ok rest → rest.length ≤ bs.length) := by
  intro f
  induction f with
  | zero => exact ⟨fun _ _ h => by omega, fun _ _ _ h => by omega, fun _ _ _ h => by omega⟩
  | succ f ih =>
    obtain ⟨ihV, ihS, ihM⟩ := ih
    refine ⟨?_, ?_, ?_⟩
    · intro d bs hf
      rw [skipValue]
      cases hw : skipWs bs with
      | nil => simp
      | cons b r =>
        have hl := skipWs_cons_length hw
        (try simp only [])
        split
        · obtain ⟨h1, h2⟩ := parseStrTok_spec r
          cases hp : parseStrTok r with
          | error e => (try simp only []); exact ⟨fun h => by injection h with h; subst h; exact h1 hp, by simp⟩
          | ok p =>
            obtain ⟨s, rest⟩ := p
            (try simp only []); refine ⟨by simp, ?_⟩; intro r' h; simp at h; subst h
            have := h2 _ _ hp; omega
        · split
          · split
            · simp
            · obtain ⟨h1, h2⟩ := ihS (d - 1) true r (by omega)
              exact ⟨h1, fun rest h => by have := h2 rest h; omega⟩
          · split
            · split
              · simp
              · obtain ⟨h1, h2⟩ := ihM (d - 1) true r (by omega)
                exact ⟨h1, fun rest h => by have := h2 rest h; omega⟩
            · split
              · simp
              · obtain ⟨h1, h2⟩ := chomp_spec r
                exact ⟨h1, fun rest h => by have := h2 rest h; omega⟩
    · intro d first bs hf
      rw [skipSeq]
      cases hw : skipWs bs with
      | nil => simp
      | cons b r =>
        have hl := skipWs_cons_length hw
        have hle : (b :: r).length ≤ bs.length := by rw [← hw]; exact skipWs_length bs
        (try simp only [])
        split
        · refine ⟨by simp, ?_⟩; intro rest h; simp at h; subst h; omega
        · obtain ⟨p1, p2⟩ := seqPos_spec first b r
          cases hp : seqPos first b r with
          | error e => (try simp only []); exact ⟨fun h => by injection h with h; subst h; exact p1 hp, by simp⟩
          | ok q =>
            obtain ⟨l, first'⟩ := q
            have hll := p2 l first' hp
            cases l with
            | nil => simp
            | cons c r2 =>
              (try simp only [])
              split
              · simp
              · obtain ⟨h1, h2⟩ := ihV d (c :: r2) (by omega)
                cases hv : skipValue f d (c :: r2) with
                | error e => (try simp only []); exact ⟨fun h => by injection h with h; subst h; exact h1 hv, by simp⟩
                | ok rest =>
                  have := h2 rest hv
                  (try simp only [])
                  obtain ⟨h3, h4⟩ := ihS d first' rest (by omega)
                  exact ⟨h3, fun r' h => by have := h4 r' h; omega⟩
    · intro d first bs hf
      rw [skipMap]
      obtain ⟨k1, k2, k3⟩ := nextKey_spec first bs
      cases hk : nextKey first bs with
      | error e => (try simp only []); exact ⟨fun h => by injection h with h; subst h; exact k1 hk, by simp⟩
      | ok p =>
        obtain ⟨o, x⟩ := p
        cases o with
        | none =>
          (try simp only []); refine ⟨by simp, ?_⟩; intro rest h; simp at h; subst h
          have := k3 x hk; simp; omega
        | some r =>
          have hr := k2 r x hk
          (try simp only [])
          obtain ⟨s1, s2⟩ := parseStrTok_spec r
          cases hp : parseStrTok r with
          | error e => (try simp only []); exact ⟨fun h => by injection h with h; subst h; exact s1 hp, by simp⟩
          | ok q =>
            obtain ⟨key, r3⟩ := q
            have h3 := s2 _ _ hp
            (try simp only [])
            obtain ⟨c1, c2⟩ := parseColon_spec r3
            cases hc : parseColon r3 with
            | error e => (try simp only []); exact ⟨fun h => by injection h with h; subst h; exact c1 hc, by simp⟩
            | ok r4 =>
              have h4 := c2 _ hc
              (try simp only [])
              obtain ⟨v1, v2⟩ := ihV d r4 (by omega)
              cases hv : skipValue f d r4 with
              | error e => (try simp only []); exact ⟨fun h => by injection h with h; subst h; exact v1 hv, by simp⟩
              | ok r5 =>
                have h5 := v2 _ hv
                (try simp only [])
                obtain ⟨m1, m2⟩ := ihM d false r5 (by omega)
                exact ⟨m1, fun rest h => by have := m2 rest h; omega⟩

theorem fieldValue_spec (f d : Nat) (acc : Acc) (key : String) (bs : Bytes) (hf : 2 * bs.length + 1 ≤ f) :
    fieldValue f d acc key bs ≠ .error .fuel ∧
      ∀ acc' rest, fieldValue f d acc key bs = .ok (acc', rest) → rest.length ≤ bs.length := by
  have hA := parseAmountValue_spec bs
  have hS := parseStringValue_spec bs
  have hO := parseOptStringValue_spec bs
  have hV := (skip_spec f).1 d bs hf
  unfold fieldValue
  split
  · split
    · simp
    · cases hp : parseAmountValue bs with
      | error e => (try simp only []); exact ⟨fun h => by injection h with h; subst h; exact hA.1 hp, by simp⟩
      | ok p => obtain ⟨v, rest⟩ := p; (try simp only []); refine ⟨by simp, ?_⟩; intro a r h; simp at h
                obtain ⟨_, rfl⟩ := h; have := hA.2 _ _ hp; omega
  · split
    · split
      · simp
      · cases hp : parseStringValue bs with
        | error e => (try simp only []); exact ⟨fun h => by injection h with h; subst h; exact hS.1 hp, by simp⟩
        | ok p => obtain ⟨v, rest⟩ := p; (try simp only []); refine ⟨by simp, ?_⟩; intro a r h; simp at h
                  obtain ⟨_, rfl⟩ := h; have := hS.2 _ _ hp; omega
    · split
      · split
        · simp
        · cases hp : parseStringValue bs with
          | error e => (try simp only []); exact ⟨fun h => by injection h with h; subst h; exact hS.1 hp, by simp⟩
          | ok p => obtain ⟨v, rest⟩ := p; (try simp only []); refine ⟨by simp, ?_⟩; intro a r h; simp at h
                    obtain ⟨_, rfl⟩ := h; have := hS.2 _ _ hp; omega
      · split
        · split
          · simp
          · cases hp : parseStringValue bs with
            | error e => (try simp only []); exact ⟨fun h => by injection h with h; subst h; exact hS.1 hp, by simp⟩
            | ok p => obtain ⟨v, rest⟩ := p; (try simp only []); refine ⟨by simp, ?_⟩; intro a r h; simp at h
                      obtain ⟨_, rfl⟩ := h; have := hS.2 _ _ hp; omega
        · split
          · split
            · simp
            · cases hp : parseOptStringValue bs with
              | error e => (try simp only []); exact ⟨fun h => by injection h with h; subst h; exact hO.1 hp, by simp⟩
              | ok p => obtain ⟨v, rest⟩ := p; (try simp only []); refine ⟨by simp, ?_⟩; intro a r h; simp at h
                        obtain ⟨_, rfl⟩ := h; have := hO.2 _ _ hp; omega
          · cases hp : skipValue f d bs with
            | error e => (try simp only []); exact ⟨fun h => by injection h with h; subst h; exact hV.1 hp, by simp⟩
            | ok rest => (try simp only []); refine ⟨by simp, ?_⟩; intro a r h; simp at h
                         obtain ⟨_, rfl⟩ := h; have := hV.2 _ hp; omega

theorem parseFields_ne_fuel : ∀ (f d : Nat) (first : Bool) (acc : Acc) (bs : Bytes), 2 * bs.length + 2 ≤ f →
    parseFields f d first acc bs ≠ .error .fuel := by
  intro f
  induction f with
  | zero => intro d first acc bs h; omega
  | succ f ih =>
    intro d first acc bs hf
    rw [parseFields]
    obtain ⟨k1, k2, _⟩ := nextKey_spec first bs
    cases hk : nextKey first bs with
    | error e => (try simp only []); exact fun h => by injection h with h; subst h; exact k1 hk
    | ok p =>
      obtain ⟨o, x⟩ := p
      cases o with
      | none => simp
      | some r =>
        have hr := k2 r x hk
        (try simp only [])
        obtain ⟨s1, s2⟩ := parseStrTok_spec r
        cases hp : parseStrTok r with
        | error e => (try simp only []); exact fun h => by injection h with h; subst h; exact s1 hp
        | ok q =>
          obtain ⟨key, r3⟩ := q
          have h3 := s2 _ _ hp
          (try simp only [])
          obtain ⟨c1, c2⟩ := parseColon_spec r3
          cases hc : parseColon r3 with
          | error e => (try simp only []); exact fun h => by injection h with h; subst h; exact c1 hc
          | ok r4 =>
            have h4 := c2 _ hc
            (try simp only [])
            obtain ⟨v1, v2⟩ := fieldValue_spec f d acc key r4 (by omega)
            cases hv : fieldValue f d acc key r4 with
            | error e => (try simp only []); exact fun h => by injection h with h; subst h; exact v1 hv
            | ok q2 =>
              obtain ⟨acc', r5⟩ := q2
              have h5 := v2 _ _ hv
              (try simp only [])
              exact ih d false acc' r5 (by omega)

/-- the fuel handed out by `decodePacketBytes` is never exhausted -/
theorem decodePacketBytes_ne_fuel (bs : Bytes) : decodePacketBytes bs ≠ .error .fuel := by
  unfold decodePacketBytes
  cases hw : skipWs bs with
  | nil => simp
  | cons b r =>
    have hl := skipWs_cons_length hw
    (try simp only [])
    split
    · have := parseFields_ne_fuel (fuelFor bs) 127 true {} r (by simp [fuelFor]; omega)
      cases hp : parseFields (fuelFor bs) 127 true {} r with
      | error e => (try simp only []); exact fun h => by injection h with h; subst h; exact this hp
      | ok q =>
        obtain ⟨acc, rest⟩ := q
        (try simp only [])
        split
        · split <;> simp
        · simp
    · simp

end CwPlus.Json
