import CwPlus.Model.Cw3Flex
import CwPlus.Lemmas.Cw3Core
import CwPlus.Lemmas.Snapshot
/-!
# Lemmas about the cw3-flex-multisig model and its runtime world

* inversion of `execute` into the core operations (`execute_cases`),
* induction principles: a world predicate preserved by every flex handler call, every group call, every bank
  and token change is preserved by `dispatch`, `tx`, `step`, `run` (`dispatch_inv`, `tx_inv`, `step_inv`, `run_inv`),
* the invariant `Inv` of the multisig state, `Later` across handler calls, reachable worlds.
-/
namespace CwPlus.Cw3Flex
open CwPlus CwPlus.Cw3 CwPlus.Cw3Core

/-! ## handler inversion -/

/-- A successful handler call is one of the four core operations (or the hook no-op), with the flex-specific
parameters: proposer weight and total read from the group *now*, voter weight read at the start height. -/
theorem execute_cases {s s' : State} {g : Cw4Group.State} {self : Addr} {blk : Block} {snd : Addr} {funds : List Coin}
    {m : ExecMsg} {out : List Out} (h : execute s g self blk snd funds m = .ok (s', out)) :
    s'.cfg = s.cfg ∧
    ((∃ t d msgs latest w total id, m = .propose t d msgs latest ∧ memberNow g snd = some w ∧ g.total.cur = some total ∧
        (∀ dep, s.cfg.deposit = some dep → checkNativeDepositPaid dep funds = .ok ()) ∧
        out = (match s.cfg.deposit with | some d => takeDeposit d snd self | none => []) ∧
        Cw3Core.propose s.core blk snd w s.cfg.threshold total s.cfg.maxVotingPeriod t d msgs latest s.cfg.deposit
          = .ok (s'.core, id)) ∨
     (∃ id v, m = .vote id v ∧ out = [] ∧
        Cw3Core.vote s.core blk snd id v (fun p => memberAt g snd p.startHeight) = .ok s'.core) ∨
     (∃ id p msgs, m = .execute id ∧ s.core.proposals.get? id = some p ∧
        Cw3Core.execute s.core blk id (authorize s.cfg g snd) = .ok (s'.core, msgs) ∧
        out = (match p.deposit with | some d => [refundMsg d p.proposer] | none => []) ++ msgs.map Out.msg) ∨
     (∃ id p, m = .close id ∧ s.core.proposals.get? id = some p ∧ Cw3Core.close s.core blk id = .ok s'.core ∧
        out = (match p.deposit with | some d => if d.refundFailed then [refundMsg d p.proposer] else [] | none => [])) ∨
     (m = .memberChangedHook ∧ snd = s.cfg.group ∧ s' = s ∧ out = [])) := by
  cases m with
  | propose t d msgs latest =>
    simp only [execute, execPropose] at h
    cases hd : s.cfg.deposit with
    | none =>
      simp only [hd] at h
      cases hm : memberNow g snd with
      | none => simp [hm] at h
      | some w =>
        simp [hm] at h
        obtain ⟨total, ht, c, ⟨id, hp⟩, rfl, rfl⟩ := h
        exact ⟨rfl, Or.inl ⟨t, d, msgs, latest, w, total, id, rfl, rfl, ht, by simp, rfl, hp⟩⟩
    | some dep =>
      simp only [hd] at h
      cases hm : memberNow g snd with
      | none => simp [hm] at h
      | some w =>
        simp [hm] at h
        obtain ⟨hpaid, total, ht, c, ⟨id, hp⟩, rfl, rfl⟩ := h
        refine ⟨rfl, Or.inl ⟨t, d, msgs, latest, w, total, id, rfl, rfl, ht, ?_, rfl, hp⟩⟩
        intro dep' he; cases he
        cases hc : checkNativeDepositPaid dep funds with
        | ok u => rfl
        | error e => simp [hc] at hpaid
  | vote id v =>
    simp [execute, execVote] at h
    obtain ⟨c, hv, rfl, rfl⟩ := h
    exact ⟨rfl, Or.inr (Or.inl ⟨id, v, rfl, rfl, hv⟩)⟩
  | execute id =>
    simp [execute, execExecute] at h
    obtain ⟨p, hp, c, msgs, he, rfl, rfl⟩ := h
    exact ⟨rfl, Or.inr (Or.inr (Or.inl ⟨id, p, msgs, rfl, hp, he, rfl⟩))⟩
  | close id =>
    simp [execute, execClose] at h
    obtain ⟨p, hp, c, hc, rfl, rfl⟩ := h
    exact ⟨rfl, Or.inr (Or.inr (Or.inr (Or.inl ⟨id, p, rfl, hp, hc, rfl⟩)))⟩
  | memberChangedHook =>
    simp [execute, execHook] at h
    obtain ⟨hs, rfl, rfl⟩ := h
    exact ⟨rfl, Or.inr (Or.inr (Or.inr (Or.inr ⟨rfl, hs, rfl, rfl⟩)))⟩

/-! ## induction over the runtime -/

theorem tokenCall_frame {w w' : World} {blk : Block} {token : Addr} {m : Cw20.Msg} (h : tokenCall w blk token m = .ok w') :
    ∃ t, w' = { w with token := t } := by
  simp [tokenCall] at h
  obtain ⟨_, t, out, _, _, rfl⟩ := h
  exact ⟨t, rfl⟩

/-- A predicate on worlds preserved by every successful flex handler call (with the ghost log extended), every
successful group call, and every change of the bank and the token is preserved by `dispatch`. -/
theorem dispatch_inv (ext : Ext) (Q : World → Prop) (blk : Block)
    (hflex : ∀ w snd funds em s' out, Q w → execute w.flex w.group w.self blk snd funds em = .ok (s', out) →
        Q { w with flex := s', log := w.log ++ [eventOf w.flex snd em] })
    (hgroup : ∀ w snd m g' outs, Q w → Cw4Group.execute w.group blk.height snd m = .ok (g', outs) →
        Q { w with group := g', log := w.log ++ [.groupWrite blk.height] })
    (hbank : ∀ w b, Q w → Q { w with bank := b })
    (htoken : ∀ w t, Q w → Q { w with token := t }) :
    ∀ fuel w outs w', Q w → dispatch ext fuel w blk outs = .ok w' → Q w' := by
  intro fuel
  induction fuel with
  | zero =>
    intro w outs w' hq h
    cases outs with
    | nil => simp [dispatch] at h; subst h; exact hq
    | cons o rest => simp [dispatch] at h
  | succ fuel ih =>
    intro w outs w' hq h
    cases outs with
    | nil => simp [dispatch] at h; subst h; exact hq
    | cons o rest =>
      simp only [dispatch, Res.bind_ok] at h
      obtain ⟨w1, h1, h2⟩ := h
      refine ih w1 rest w' ?_ h2
      cases o with
      | msg m =>
        simp only at h1
        cases hs : selfCall m with
        | some em =>
          rw [hs] at h1
          simp only [Res.bind_ok] at h1
          obtain ⟨⟨s', out⟩, he, hd⟩ := h1
          exact ih _ out w1 (hflex w w.self [] em s' out hq he) hd
        | none =>
          rw [hs] at h1
          cases m with
          | bank to amt denom =>
            simp at h1
            obtain ⟨b, _, rfl⟩ := h1
            exact hbank w b hq
          | other tag =>
            simp only at h1
            cases hx : ext tag with
            | none => simp [hx] at h1
            | some ar =>
              obtain ⟨add, remove⟩ := ar
              simp only [hx, Res.bind_ok] at h1
              obtain ⟨⟨g', outs⟩, hg, hd⟩ := h1
              exact ih _ _ w1 (hgroup w w.self _ g' outs hq hg) hd
          | selfExecute id => simp [selfCall] at hs
          | selfClose id => simp [selfCall] at hs
          | selfVote id v => simp [selfCall] at hs
          | selfPropose l => simp [selfCall] at hs
          | noContract tag => simp at h1
      | bank to amt denom =>
        simp at h1
        obtain ⟨b, _, rfl⟩ := h1
        exact hbank w b hq
      | cw20Transfer token to amt =>
        obtain ⟨t, rfl⟩ := tokenCall_frame h1
        exact htoken w t hq
      | cw20TransferFrom token owner to amt =>
        obtain ⟨t, rfl⟩ := tokenCall_frame h1
        exact htoken w t hq
      | groupHook hook =>
        simp only at h1
        split at h1
        · simp only [Res.bind_ok] at h1
          obtain ⟨⟨s', out⟩, he, hd⟩ := h1
          exact ih _ out w1 (hflex w w.groupAddr [] .memberChangedHook s' out hq he) hd
        · simp at h1

theorem tx_inv (ext : Ext) (Q : World → Prop) (blk : Block)
    (hflex : ∀ w snd funds em s' out, Q w → execute w.flex w.group w.self blk snd funds em = .ok (s', out) →
        Q { w with flex := s', log := w.log ++ [eventOf w.flex snd em] })
    (hgroup : ∀ w snd m g' outs, Q w → Cw4Group.execute w.group blk.height snd m = .ok (g', outs) →
        Q { w with group := g', log := w.log ++ [.groupWrite blk.height] })
    (hbank : ∀ w b, Q w → Q { w with bank := b })
    (htoken : ∀ w t, Q w → Q { w with token := t })
    {fuel : Nat} {w w' : World} {act : Action} (hq : Q w) (h : tx ext fuel w blk act = .ok w') : Q w' := by
  cases act with
  | flex snd funds m =>
    simp only [tx, Res.bind_ok] at h
    obtain ⟨b, _, ⟨s', out⟩, he, hd⟩ := h
    exact dispatch_inv ext Q blk hflex hgroup hbank htoken fuel _ out w'
      (hflex { w with bank := b } snd funds m s' out (hbank w b hq) he) hd
  | group snd m =>
    simp only [tx, Res.bind_ok] at h
    obtain ⟨⟨g', outs⟩, hg, hd⟩ := h
    exact dispatch_inv ext Q blk hflex hgroup hbank htoken fuel _ _ w' (hgroup w snd m g' outs hq hg) hd
  | token snd m =>
    simp [tx] at h
    obtain ⟨t, out, _, _, rfl⟩ := h
    exact htoken w t hq

theorem step_inv (ext : Ext) (Q : World → Prop)
    (hflex : ∀ blk w snd funds em s' out, Q w → execute w.flex w.group w.self blk snd funds em = .ok (s', out) →
        Q { w with flex := s', log := w.log ++ [eventOf w.flex snd em] })
    (hgroup : ∀ (blk : Block) w snd m g' outs, Q w → Cw4Group.execute w.group blk.height snd m = .ok (g', outs) →
        Q { w with group := g', log := w.log ++ [.groupWrite blk.height] })
    (hbank : ∀ w b, Q w → Q { w with bank := b })
    (htoken : ∀ w t, Q w → Q { w with token := t })
    (fuel : Nat) (w : World) (op : Op) (hq : Q w) : Q (step ext fuel w op) := by
  unfold step
  split
  · rename_i w' htx; exact tx_inv ext Q op.blk (hflex op.blk) (hgroup op.blk) hbank htoken hq htx
  · exact hq

theorem run_inv (ext : Ext) (Q : World → Prop) (fuel : Nat)
    (hstep : ∀ w op, Q w → Q (step ext fuel w op)) (ops : List Op) : ∀ w, Q w → Q (run ext fuel w ops) := by
  induction ops with
  | nil => intro w h; exact h
  | cons op rest ih => intro w h; exact ih _ (hstep w op h)

/-- Predicates on the multisig state alone: preserved by every handler call ⇒ preserved by every history. -/
theorem run_state_inv (ext : Ext) (P : State → Prop)
    (hP : ∀ g self blk s snd funds m s' out, P s → execute s g self blk snd funds m = .ok (s', out) → P s')
    (fuel : Nat) (ops : List Op) (w : World) (h : P w.flex) : P (run ext fuel w ops).flex :=
  run_inv ext (fun w => P w.flex) fuel
    (fun w op hq => step_inv ext (fun w => P w.flex)
      (fun blk w snd funds em s' out hq he => hP w.group w.self blk w.flex snd funds em s' out hq he)
      (fun _ _ _ _ _ _ hq _ => hq) (fun _ _ hq => hq) (fun _ _ hq => hq) fuel w op hq) ops w h

@[simp] theorem run_nil (ext : Ext) (fuel : Nat) (w : World) : run ext fuel w [] = w := rfl
@[simp] theorem run_cons (ext : Ext) (fuel : Nat) (w : World) (op : Op) (ops : List Op) :
    run ext fuel w (op :: ops) = run ext fuel (step ext fuel w op) ops := rfl
theorem run_append (ext : Ext) (fuel : Nat) (w : World) (ops ops' : List Op) :
    run ext fuel w (ops ++ ops') = run ext fuel (run ext fuel w ops) ops' := by
  simp [run, List.foldl_append]

/-! ## the invariant of the multisig state -/

/-- * the core is well-formed (`Cw3Core.WF`: ids `1..count`, one ballot per key, tally = Σ ballots),
* every proposal carries the configured deposit, and a configured deposit is non-zero. -/
structure Inv (s : State) : Prop where
  wf : Cw3Core.WF s.core
  propDeposit : ∀ id p, s.core.proposals.get? id = some p → p.deposit = s.cfg.deposit
  depositPos : ∀ d, s.cfg.deposit = some d → d.amount ≠ 0

theorem instantiate_inv {m : InstMsg} {g : Option Cw4Group.State} {s : State} (h : instantiate m g = .ok s) : Inv s := by
  simp only [instantiate, Res.bind_ok] at h
  obtain ⟨_, _, total, _, _, _, dep, hdep, h⟩ := h
  simp at h; subst h
  refine ⟨wf_empty, ?_, ?_⟩
  · intro id p hp; simp [Core.empty] at hp
  · intro d hd
    simp only at hd; subst hd
    cases hm : m.deposit with
    | none => simp [hm] at hdep
    | some da =>
      simp [hm, checkDeposit] at hdep
      obtain ⟨hne, _, rfl⟩ := hdep
      simpa using hne

theorem execute_inv {s s' : State} {g : Cw4Group.State} {self : Addr} {blk : Block} {snd : Addr} {funds : List Coin}
    {m : ExecMsg} {out : List Out} (hi : Inv s) (h : execute s g self blk snd funds m = .ok (s', out)) : Inv s' := by
  obtain ⟨hcfg, hc⟩ := execute_cases h
  rcases hc with ⟨t, d, msgs, latest, w, total, id, _, _, _, _, _, hp⟩ | ⟨id, v, _, _, hv⟩ | ⟨id, p, msgs, _, _, he, _⟩ |
    ⟨id, p, _, _, hcl, _⟩ | ⟨_, _, rfl, _⟩
  · obtain ⟨expires, st, _, _, hid, _, hc'⟩ := propose_spec hp
    refine ⟨propose_wf hi.wf hp, ?_, hcfg ▸ hi.depositPos⟩
    intro id' p' hp'
    rw [hc'] at hp'; simp only [AMap.get?_set] at hp'
    by_cases e : id = id'
    · simp only [e, if_true, Option.some.injEq] at hp'; subst hp'; simp [hcfg]
    · simp only [e, if_false] at hp'; rw [hcfg]; exact hi.propDeposit id' p' hp'
  · obtain ⟨p, w, votes, st, hp, _, _, _, _, _, _, _, hc'⟩ := vote_spec hv
    refine ⟨vote_wf hi.wf hv, ?_, hcfg ▸ hi.depositPos⟩
    intro id' p' hp'
    rw [hc'] at hp'; simp only [AMap.get?_set] at hp'
    by_cases e : id = id'
    · simp only [e, if_true, Option.some.injEq] at hp'; subst hp'; rw [hcfg]; exact hi.propDeposit id p hp
    · simp only [e, if_false] at hp'; rw [hcfg]; exact hi.propDeposit id' p' hp'
  · obtain ⟨p0, hp0, _, _, _, hc'⟩ := execute_spec he
    refine ⟨execute_wf hi.wf he, ?_, hcfg ▸ hi.depositPos⟩
    intro id' p' hp'
    rw [hc'] at hp'; simp only [AMap.get?_set] at hp'
    by_cases e : id = id'
    · simp only [e, if_true, Option.some.injEq] at hp'; subst hp'; rw [hcfg]; exact hi.propDeposit id p0 hp0
    · simp only [e, if_false] at hp'; rw [hcfg]; exact hi.propDeposit id' p' hp'
  · obtain ⟨p0, _, hp0, _, _, _, _, _, _, hc'⟩ := close_spec hcl
    refine ⟨close_wf hi.wf hcl, ?_, hcfg ▸ hi.depositPos⟩
    intro id' p' hp'
    rw [hc'] at hp'; simp only [AMap.get?_set] at hp'
    by_cases e : id = id'
    · simp only [e, if_true, Option.some.injEq] at hp'; subst hp'; rw [hcfg]; exact hi.propDeposit id p0 hp0
    · simp only [e, if_false] at hp'; rw [hcfg]; exact hi.propDeposit id' p' hp'
  · exact hi

/-- The core only ever moves to a `Later` core (content of proposals fixed, status along `edge`, ballots kept). -/
theorem execute_later {s s' : State} {g : Cw4Group.State} {self : Addr} {blk : Block} {snd : Addr} {funds : List Coin}
    {m : ExecMsg} {out : List Out} (hi : Inv s) (h : execute s g self blk snd funds m = .ok (s', out)) :
    Later s.core s'.core := by
  obtain ⟨_, hc⟩ := execute_cases h
  rcases hc with ⟨t, d, msgs, latest, w, total, id, _, _, _, _, _, hp⟩ | ⟨id, v, _, _, hv⟩ | ⟨id, p, msgs, _, _, he, _⟩ |
    ⟨id, p, _, _, hcl, _⟩ | ⟨_, _, rfl, _⟩
  · exact propose_later hi.wf hp
  · exact vote_later hv
  · exact Cw3Core.execute_later he
  · exact close_later hi.wf hcl
  · exact later_refl _

/-! ## reachable worlds -/

/-- The worlds reachable from an accepted instantiation of the multisig on top of any group state, any token
state, any bank, by any finite history of transactions on the multisig, the group and the token. -/
def Reachable (ext : Ext) (fuel : Nat) (w : World) : Prop :=
  ∃ (m : InstMsg) (s : State) (g : Cw4Group.State) (t : Cw20.State) (bank : AMap (Addr × String) Nat)
    (self groupAddr tokenAddr : Addr) (h0 : Nat) (ops : List Op),
    instantiate m (some g) = .ok s ∧ w = run ext fuel (World.init s g t bank self groupAddr tokenAddr h0) ops

theorem reachable_inv {ext : Ext} {fuel : Nat} {w : World} (h : Reachable ext fuel w) : Inv w.flex := by
  obtain ⟨m, s, g, t, bank, self, ga, ta, h0, ops, hi, rfl⟩ := h
  exact run_state_inv ext Inv (fun _ _ _ _ _ _ _ _ _ hi h => execute_inv hi h) fuel ops _ (instantiate_inv hi)

theorem reachable_run {ext : Ext} {fuel : Nat} {w : World} (h : Reachable ext fuel w) (ops : List Op) :
    Reachable ext fuel (run ext fuel w ops) := by
  obtain ⟨m, s, g, t, bank, self, ga, ta, h0, ops0, hi, rfl⟩ := h
  exact ⟨m, s, g, t, bank, self, ga, ta, h0, ops0 ++ ops, hi, (run_append ext fuel _ ops0 ops).symm⟩

/-- A relation between the multisig state at the start of a history and at its end, given that it is reflexive,
transitive and holds across every handler call from a state satisfying `Inv`. -/
theorem run_rel (ext : Ext) (R : State → State → Prop) (hrefl : ∀ s, R s s) (htrans : ∀ a b c, R a b → R b c → R a c)
    (hR : ∀ g self blk s snd funds m s' out, Inv s → execute s g self blk snd funds m = .ok (s', out) → R s s')
    (fuel : Nat) (ops : List Op) (w : World) (hi : Inv w.flex) : R w.flex (run ext fuel w ops).flex := by
  have := run_state_inv ext (fun s => Inv s ∧ R w.flex s)
    (fun g self blk s snd funds m s' out ⟨hi, hr⟩ h =>
      ⟨execute_inv hi h, htrans _ _ _ hr (hR g self blk s snd funds m s' out hi h)⟩)
    fuel ops w ⟨hi, hrefl _⟩
  exact this.2

end CwPlus.Cw3Flex
