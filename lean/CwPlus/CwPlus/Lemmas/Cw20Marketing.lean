import CwPlus.Model.Cw20
/-!
# cw20: the marketing / logo handlers only write `MARKETING_INFO` and `LOGO`

Frame lemmas used by every per-message case analysis of the cw20 property files: a successful
`UpdateMarketing` / `UploadLogo` returns the old state with (at most) the `marketing` and `logo`
fields replaced, and emits no message.
-/
namespace CwPlus.Cw20
open CwPlus

theorem execUpdateMarketing_frame {s s' : State} {snd : Addr} {p d : Option String} {m : Option AddrArg}
    {out : List Out} (h : execUpdateMarketing s snd p d m = .ok (s', out)) :
    ∃ mk, s' = { s with marketing := mk } ∧ out = [] := by
  unfold execUpdateMarketing at h
  split at h
  · simp at h
  · split at h
    · simp at h
    · simp only [Res.bind_ok] at h
      obtain ⟨_, _, addr, _, h⟩ := h
      split at h
      · simp at h; exact ⟨none, h.1.symm, h.2⟩
      · simp at h; exact ⟨_, h.1.symm, h.2⟩

theorem execUploadLogo_frame {s s' : State} {snd : Addr} {l : Logo} {out : List Out}
    (h : execUploadLogo s snd l = .ok (s', out)) :
    ∃ mk, s' = { s with marketing := mk, logo := some l } ∧ out = [] := by
  unfold execUploadLogo at h
  split at h
  · simp at h
  · simp only [Res.bind_ok] at h
    obtain ⟨_, _, h⟩ := h
    split at h
    · simp at h
    · simp at h; exact ⟨_, h.2.1.symm, h.2.2⟩

/-- Both marketing handlers as one statement about `execute`. -/
theorem marketing_frame {s s' : State} {blk : Block} {snd : Addr} {msg : Msg} {out : List Out}
    (hm : (match msg with | .updateMarketing .. => true | .uploadLogo _ => true | _ => false) = true)
    (h : execute s blk snd msg = .ok (s', out)) :
    ∃ mk lg, s' = { s with marketing := mk, logo := lg } ∧ out = [] := by
  cases msg <;> simp at hm
  · obtain ⟨mk, rfl, rfl⟩ := execUpdateMarketing_frame (by simpa [execute] using h)
    exact ⟨mk, s.logo, rfl, rfl⟩
  · obtain ⟨mk, rfl, rfl⟩ := execUploadLogo_frame (by simpa [execute] using h)
    exact ⟨mk, _, rfl, rfl⟩

end CwPlus.Cw20
