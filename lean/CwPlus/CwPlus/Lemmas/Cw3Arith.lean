import CwPlus.Model.Cw3
/-!
# Arithmetic of `votes_needed` (helper lemmas for C04; core Lean only)

`votesNeeded w a = ⌈ ⌊10^9·w·a / 10^18⌋ / 10^9 ⌉ as u64`.  The only non-linear term is the product
`w·a`; every proof generalises it and finishes with `omega` (division by literals is linear).
-/
namespace CwPlus.Cw3
open CwPlus

/-- `votes_needed` before the `as u64` cast. -/
def vnRaw (w a : Nat) : Nat := (PRECISION_FACTOR * w * a / DEC_ONE + PRECISION_FACTOR - 1) / PRECISION_FACTOR

/-- The exact requirement: `⌈w·a / 10^18⌉`. -/
def exactCeil (w a : Nat) : Nat := (w * a + DEC_ONE - 1) / DEC_ONE

theorem votesNeeded_eq_cast (w a : Nat) : votesNeeded w a = castU64 (vnRaw w a) := rfl

theorem pf_mul (w a : Nat) : PRECISION_FACTOR * w * a = PRECISION_FACTOR * (w * a) := Nat.mul_assoc _ _ _

theorem mul_le_one {w a : Nat} (ha : a ≤ DEC_ONE) : w * a ≤ w * DEC_ONE := Nat.mul_le_mul_left _ ha

/-- the un-cast value is at most the weight when the percentage is at most 1 -/
theorem vnRaw_le {w a : Nat} (ha : a ≤ DEC_ONE) : vnRaw w a ≤ w := by
  have h := mul_le_one (w := w) ha
  unfold vnRaw; rw [pf_mul]
  generalize w * a = Q at *
  simp only [PRECISION_FACTOR, DEC_ONE] at *
  omega

/-- … hence the `as u64` cast loses nothing -/
theorem vn_eq_raw {w a : Nat} (ha : a ≤ DEC_ONE) (hw : w ≤ U64_MAX) : votesNeeded w a = vnRaw w a := by
  have h := vnRaw_le (w := w) ha
  rw [votesNeeded_eq_cast]; unfold castU64
  simp only [U64_MAX] at hw
  omega

/-- the intermediate values of the Rust code fit their types: `10^9 · w` is a `u128`
and `mul_floor`'s result fits `Uint128` -/
theorem vn_intermediate_fits {w a : Nat} (ha : a ≤ DEC_ONE) (hw : w ≤ U64_MAX) :
    PRECISION_FACTOR * w ≤ U128_MAX ∧ PRECISION_FACTOR * w * a / DEC_ONE ≤ U128_MAX := by
  have h := mul_le_one (w := w) ha
  rw [pf_mul]
  generalize w * a = Q at *
  simp only [PRECISION_FACTOR, DEC_ONE, U64_MAX, U128_MAX] at *
  omega

theorem vnRaw_mono {w w' a : Nat} (h : w ≤ w') : vnRaw w a ≤ vnRaw w' a := by
  have h1 : w * a ≤ w' * a := Nat.mul_le_mul_right _ h
  unfold vnRaw; rw [pf_mul, pf_mul]
  generalize w * a = Q at *
  generalize w' * a = Q' at *
  simp only [PRECISION_FACTOR, DEC_ONE] at *
  omega

theorem vnRaw_exact (w p : Nat) : vnRaw w (PRECISION_FACTOR * p) = (w * p + PRECISION_FACTOR - 1) / PRECISION_FACTOR := by
  have e : PRECISION_FACTOR * w * (PRECISION_FACTOR * p) = DEC_ONE * (w * p) := by
    have : DEC_ONE = PRECISION_FACTOR * PRECISION_FACTOR := by decide
    rw [this]; simp only [Nat.mul_left_comm, Nat.mul_comm]
  unfold vnRaw; rw [e, Nat.mul_div_cancel_left _ (by decide : 0 < DEC_ONE)]

theorem vnRaw_within_one (w a : Nat) : vnRaw w a ≤ exactCeil w a ∧ exactCeil w a ≤ vnRaw w a + 1 := by
  unfold vnRaw exactCeil; rw [pf_mul]
  generalize w * a = Q
  simp only [PRECISION_FACTOR, DEC_ONE]
  omega

theorem vnRaw_compl {w a : Nat} (ha : a ≤ DEC_ONE) : w ≤ vnRaw w a + vnRaw w (DEC_ONE - a) := by
  have e : w * a + w * (DEC_ONE - a) = w * DEC_ONE := by
    rw [← Nat.mul_add]; congr 1; omega
  unfold vnRaw; rw [pf_mul, pf_mul]
  generalize w * a = Q1 at *
  generalize w * (DEC_ONE - a) = Q2 at *
  simp only [PRECISION_FACTOR, DEC_ONE] at *
  omega

/-- `⌈n / d⌉ ≤ y ↔ n ≤ y·d` for the two literal denominators -/
theorem ceil9_le_iff (n y : Nat) : (n + PRECISION_FACTOR - 1) / PRECISION_FACTOR ≤ y ↔ n ≤ y * PRECISION_FACTOR := by
  simp only [PRECISION_FACTOR]; omega

theorem ceil18_le_iff (n y : Nat) : (n + DEC_ONE - 1) / DEC_ONE ≤ y ↔ n ≤ y * DEC_ONE := by
  simp only [DEC_ONE]; omega

/-! ### rewriting helpers for `Res` (plain `rw` lemmas; `simp` with `bind` unfolded is slow on the
nested `if`s of `isPassed`) -/

theorem ok_bind {α β : Type} (a : α) (f : α → Res β) : ((Except.ok a : Res α) >>= f) = f a := rfl
theorem error_bind {α β : Type} (e : String) (f : α → Res β) : ((Except.error e : Res α) >>= f) = .error e := rfl
theorem pure_eq_ok {α : Type} (a : α) : (pure a : Res α) = .ok a := rfl

theorem subU64_bind_of_le {β : Type} {a b : Nat} (h : b ≤ a) (f : Nat → Res β) :
    (subU64 a b >>= f) = f (a - b) := by
  unfold subU64; rw [if_pos h, ok_bind]

theorem subU64_bind_of_lt {β : Type} {a b : Nat} (h : a < b) (f : Nat → Res β) :
    (subU64 a b >>= f) = .error "underflow.u64" := by
  unfold subU64; rw [if_neg (by omega), error_bind]

theorem oneMinus_bind_of_le {β : Type} {a : Nat} (h : a ≤ DEC_ONE) (f : Nat → Res β) :
    (oneMinus a >>= f) = f (DEC_ONE - a) := by
  unfold oneMinus; rw [if_pos h, ok_bind]

theorem ok_decide_congr {P Q : Prop} [Decidable P] [Decidable Q] (h : P ↔ Q) :
    (Except.ok (decide P) : Res Bool) = .ok (decide Q) := congrArg _ (decide_eq_decide.mpr h)

end CwPlus.Cw3
