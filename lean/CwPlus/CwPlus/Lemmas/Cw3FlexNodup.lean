import CwPlus.Lemmas.Cw3Flex
import CwPlus.Lemmas.Cw3CoreNodup
import CwPlus.Lemmas.Cw4GroupNodup
/-!
# cw3-flex-multisig: `PROPOSALS` never holds an id twice; the group's members stay distinct

* `reachable_nodup`: in every reachable world the proposals map of the multisig holds every id at most once;
* `run_group_nodup`: the group contract of the world keeps `AMap.NodupKeys group.members.cur` along every
  history of the world (the group is written by `Action.group` transactions and by proposals that call
  `UpdateMembers`), provided it held initially — `Reachable` starts from an *arbitrary* group state, so the
  initial group must itself come from an accepted `Cw4Group.instantiate` and a history of group calls
  (`Cw4Group.instantiate_nodup`, `Cw4Group.run_nodup`).
Core only.
-/
namespace CwPlus.Cw3Flex
open CwPlus CwPlus.Cw3 CwPlus.Cw3Core

theorem instantiate_nodup {m : InstMsg} {g : Option Cw4Group.State} {s : State} (h : instantiate m g = .ok s) :
    AMap.NodupKeys s.core.proposals := by
  simp only [instantiate, Res.bind_ok] at h
  obtain ⟨_, _, total, _, _, _, dep, hdep, h⟩ := h
  simp at h; subst h
  exact Cw3Core.nodup_empty

theorem execute_nodup {s s' : State} {g : Cw4Group.State} {self : Addr} {blk : Block} {snd : Addr} {funds : List Coin}
    {m : ExecMsg} {out : List Out} (hn : AMap.NodupKeys s.core.proposals)
    (h : execute s g self blk snd funds m = .ok (s', out)) : AMap.NodupKeys s'.core.proposals := by
  obtain ⟨_, hc⟩ := execute_cases h
  rcases hc with ⟨t, d, msgs, latest, w, total, id, _, _, _, _, _, hp⟩ | ⟨id, v, _, _, hv⟩ | ⟨id, p, msgs, _, _, he, _⟩ |
    ⟨id, p, _, _, hcl, _⟩ | ⟨_, _, rfl, _⟩
  · exact propose_nodup hp hn
  · exact vote_nodup hv hn
  · exact Cw3Core.execute_nodup he hn
  · exact close_nodup hcl hn
  · exact hn

/-- In every reachable world the proposals map holds every id at most once. -/
theorem reachable_nodup {ext : Ext} {fuel : Nat} {w : World} (h : Reachable ext fuel w) :
    AMap.NodupKeys w.flex.core.proposals := by
  obtain ⟨m, s, g, t, bank, self, ga, ta, h0, ops, hi, rfl⟩ := h
  exact run_state_inv ext (fun s => AMap.NodupKeys s.core.proposals) (fun _ _ _ _ _ _ _ _ _ hn h => execute_nodup hn h)
    fuel ops _ (instantiate_nodup hi)

/-- The group's current members stay distinct along every history of the world. -/
theorem run_group_nodup (ext : Ext) (fuel : Nat) (ops : List Op) (w : World)
    (hg : AMap.NodupKeys w.group.members.cur) : AMap.NodupKeys (run ext fuel w ops).group.members.cur :=
  run_inv ext (fun w => AMap.NodupKeys w.group.members.cur) fuel
    (fun w op hq => step_inv ext (fun w => AMap.NodupKeys w.group.members.cur)
      (fun _ _ _ _ _ _ _ hq _ => hq)
      (fun _ _ _ _ _ _ hq hc => Cw4Group.execute_nodup hq hc)
      (fun _ _ hq => hq) (fun _ _ hq => hq) fuel w op hq) ops w hg

end CwPlus.Cw3Flex
