import CwPlus.Lemmas.Ics20Migrate
/-!
The ghost ledger `sent` of C11/C12 moves in lock step with the contract's own `total_sent` counter — also
across a migration, where `sent` is re-baselined: `v2::update_balances` adds the same difference to
`outstanding` and to `total_sent`.
-/
namespace CwPlus.Ics20
open CwPlus

/-- `migrate` (any stored version) on distinct keys: per key, `outstanding` does not decrease and
`total_sent` grows by exactly the growth of `outstanding`. -/
theorem migrate_delta {s s' : State} {gas : Option Nat} {hold : Denom → Option Nat}
    (hnd : AMap.NodupKeys s.chan) (h : migrate s gas hold = .ok s') (k : Key) :
    outAt s.chan k ≤ outAt s'.chan k ∧ totAt s'.chan k + outAt s.chan k = totAt s.chan k + outAt s'.chan k := by
  obtain ⟨_, hb⟩ := migrate_books h
  rcases hb with ⟨_, e⟩ | ⟨_, s1, s2, e1, _, hu, e2⟩
  · rw [e]; exact ⟨Nat.le_refl _, rfl⟩
  · rcases updateBalances_cases hu with ⟨_, rfl⟩ | ⟨ch, m, hch, _, _⟩
    · rw [e2, e1]; exact ⟨Nat.le_refl _, rfl⟩
    · obtain ⟨r1, r2, _, _⟩ := updateBalances_full hch (by rw [e1]; exact hnd) hu
      rw [e1] at r1 r2
      rw [e2]
      by_cases hk : k ∈ AMap.keys s.chan ∧ k.1 = ch
      · obtain ⟨hk1, hk2⟩ := hk
        obtain ⟨c, d⟩ := k
        simp only at hk2; subst hk2
        cases hg : s.chan.get? (c, d) with
        | none => exact absurd hk1 (AMap.get?_eq_none_iff.mp hg)
        | some cs =>
          obtain ⟨bal, _, hle, hget⟩ := r1 d cs hg
          simp only [outAt, totAt, hg, hget]
          omega
      · have : k ∉ AMap.keys s.chan ∨ k.1 ≠ ch := by
          by_cases h1 : k ∈ AMap.keys s.chan
          · right; intro h2; exact hk ⟨h1, h2⟩
          · left; exact h1
        have e := r2 k this
        simp only [outAt, totAt, e]
        exact ⟨Nat.le_refl _, trivial⟩

/-- One transaction: `total_sent` and the ghost `sent` move by the same amount, for every key. -/
theorem exec_totSent {w w' : World} {g : Ghost} {blk : Block} {op : Op} {o : Outcome}
    (hnd : AMap.NodupKeys w.st.chan) (hi : LedgerInv (w, g)) (h : w.exec blk op = .ok (w', o)) (k : Key) :
    totAt w'.st.chan k + g.sent k = totAt w.st.chan k + (g.update w' op o).sent k := by
  have inc : ∀ {ch : ChanMap} {c d amt}, increaseBalance w.st.chan c d amt = .ok ch →
      totAt ch k + g.sent k = totAt w.st.chan k + bump g.sent (c, d) amt k := by
    intro ch c d amt hinc
    obtain ⟨_, ht, _⟩ := increaseBalance_spec hinc
    rw [ht k, bump_apply]
    split <;> omega
  have red : ∀ {ch : ChanMap} {c d amt}, reduceBalance w.st.chan c d amt = .ok ch → totAt ch k = totAt w.st.chan k := by
    intro ch c d amt hred
    obtain ⟨_, _, _, _, _, ht⟩ := reduceBalance_spec hred
    exact ht k
  cases op with
  | connect id v cv ord peer =>
    have f := exec_plain_frame h (Or.inl ⟨id, v, cv, ord, peer, rfl⟩); simp only [Ghost.update, f.1]
  | chanOpen v cv ord => obtain ⟨rfl, rfl⟩ := exec_chanOpen h; simp only [Ghost.update]
  | chanClose id => exact (exec_chanClose h).elim
  | allow snd c gg =>
    have f := exec_plain_frame h (Or.inr (Or.inl ⟨snd, c, gg, rfl⟩)); simp only [Ghost.update, f.1]
  | updateAdmin snd a =>
    have f := exec_plain_frame h (Or.inr (Or.inr ⟨snd, a, rfl⟩)); simp only [Ghost.update, f.1]
  | migrate gg =>
    obtain ⟨h1, h2⟩ := migrate_delta hnd (exec_migrate_frame h).1 k
    have := hi.1 k
    simp only at this
    simp only [Ghost.update]
    omega
  | transferNative snd funds msg =>
    obtain ⟨d, amt, w1, s, out, _, _, _, hs, rfl, rfl⟩ := exec_transferNative_spec h
    obtain ⟨ch, hinc, rfl, _, _, _, _, rfl, _⟩ := execTransfer_spec hs
    simp only [Ghost.update]
    exact inc hinc
  | sendCw20 snd token amt msg =>
    obtain ⟨w1, m, s, out, _, _, _, _, hs, rfl, rfl⟩ := exec_sendCw20_spec h
    obtain ⟨ch, hinc, rfl, _, _, _, _, rfl, _⟩ := execTransfer_spec hs
    simp only [Ghost.update]
    exact inc hinc
  | hook snd funds sender amt msg =>
    obtain ⟨m, s, out, _, _, hs, rfl, rfl⟩ := exec_hook_spec h
    obtain ⟨ch, hinc, rfl, _, _, _, _, rfl, _⟩ := execTransfer_spec hs
    simp only [Ghost.update]
    exact inc hinc
  | recv p rv tv f =>
    have hsent : (g.update w' (.recv p rv tv f) o).sent = g.sent := by
      simp only [Ghost.update]; split <;> rfl
    rw [hsent]
    rcases exec_recv_cases h with ⟨_, rfl, _, _⟩ | ⟨s1, sub, hd, _, hc⟩
    · rfl
    · obtain ⟨amt, d, ch, _, _, hred, rfl, _⟩ := doReceive_spec hd
      rcases hc with ⟨hp, _⟩ | ⟨_, _, ra, ch2, hra, hundo, rfl⟩
      · rw [(payout_frame hp).1]; simp only; rw [red hred]
      · simp at hra; subst hra
        have := undoReduce_reduce_eq hred hundo
        subst this; rfl
  | ack chan data ackOk sv tv f =>
    have hsent : (g.update w' (.ack chan data ackOk sv tv f) o).sent = g.sent := by
      cases data with
      | none => rfl
      | some p =>
        cases ackOk with
        | none => rfl
        | some b =>
          cases b
          · simp only [Ghost.update, Ghost.failure]; split <;> rfl
          · rfl
    rw [hsent]
    rcases exec_ack_cases h with ⟨_, rfl, _, _⟩ | ⟨_, s1, sub, hf, _, hc⟩
    · rfl
    · obtain ⟨p, ch, rfl, hred, rfl, _⟩ := onPacketFailure_spec hf
      rcases hc with ⟨hp, _⟩ | ⟨_, rfl, _⟩
      · rw [(payout_frame hp).1]; simp only; rw [red hred]
      · simp only; rw [red hred]
  | timeout chan data sv tv f =>
    have hsent : (g.update w' (.timeout chan data sv tv f) o).sent = g.sent := by
      cases data with
      | none => rfl
      | some p => simp only [Ghost.update, Ghost.failure]; split <;> rfl
    rw [hsent]
    obtain ⟨s1, sub, hf, _, hc⟩ := exec_timeout_cases h
    obtain ⟨p, ch, rfl, hred, rfl, _⟩ := onPacketFailure_spec hf
    rcases hc with ⟨hp, _⟩ | ⟨_, rfl, _⟩
    · rw [(payout_frame hp).1]; simp only; rw [red hred]
    · simp only; rw [red hred]

/-- The ghost `sent` and the contract's `total_sent` differ by a constant along every history. -/
def TotInv (t0 o0 : Key → Nat) (wg : World × Ghost) : Prop :=
  ∀ k, totAt wg.1.st.chan k + o0 k = wg.2.sent k + t0 k

theorem stepG_totInv {t0 o0 : Key → Nat} {wg : World × Ghost} (blk : Block) (op : Op)
    (hwf : WellFormed wg.1.st) (hi : LedgerInv wg) (ht : TotInv t0 o0 wg) :
    WellFormed (stepG wg blk op).1.st ∧ LedgerInv (stepG wg blk op) ∧ TotInv t0 o0 (stepG wg blk op) := by
  refine ⟨?_, stepG_ledger blk op hi, ?_⟩
  · unfold stepG
    split
    · split
      · rename_i w' o h; exact exec_wellFormed hwf h
      · exact hwf
    · exact hwf
  · unfold stepG
    split
    · split
      · rename_i w' o h
        intro k
        have := exec_totSent (g := wg.2) hwf.1 hi h k
        have := ht k
        simp only at *
        omega
      · exact ht
    · exact ht

theorem runG_totInv {t0 o0 : Key → Nat} {wg : World × Ghost} (ops : List (Block × Op))
    (hwf : WellFormed wg.1.st) (hi : LedgerInv wg) (ht : TotInv t0 o0 wg) : TotInv t0 o0 (runG wg ops) := by
  induction ops generalizing wg with
  | nil => exact ht
  | cons op rest ih =>
    obtain ⟨h1, h2, h3⟩ := stepG_totInv op.1 op.2 hwf hi ht
    exact ih h1 h2 h3

/-- Ghosts of a start state with packets already in flight (sent by an earlier history, e.g. under the
old code before a migration): as `Ghost.init`, but IBC core may still deliver one acknowledgement or
timeout for each packet of `fl`. -/
def Ghost.initWith (w : World) (fl : List (String × Packet)) : Ghost := { Ghost.init w with inflight := fl }

theorem Ghost.initWith_nil (w : World) : Ghost.initWith w [] = Ghost.init w := rfl

theorem ledgerInv_initWith (w : World) (fl : List (String × Packet)) : LedgerInv (w, Ghost.initWith w fl) := by
  constructor <;> intro k <;> simp [Ghost.init, Ghost.initWith]

end CwPlus.Ics20
