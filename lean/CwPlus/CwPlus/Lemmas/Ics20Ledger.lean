import CwPlus.Lemmas.Ics20TotalSent
import CwPlus.Lemmas.Ics20Env
/-!
Ledger lemmas for cw20-ics20 that do not depend on the `admissible` filter of `runG`:

* `stepU` / `runU`: the ghost history over *every* op of a history (no filter); its world component is
  the plain history `run` (`runU_fst`), and `LedgerInv` / `TotInv` hold along it (`runU_ledger`,
  `runU_totInv`) — `exec_ledger` never used admissibility.
* `PostV3S`: the stored version is newer than 0.13.0; preserved by every transaction (`exec_postV3S`);
  under it a migration does not touch the books, so the ghost `sent` is **not** re-baselined
  (`update_migrate_sent_postV3`).
* `sentOf`: Σ amounts of the accepted transfers of a history, per key, defined from the outcomes alone;
  `runU_sent_postV3`: for a current-version contract the ghost `sent` is the start value plus `sentOf`.
-/
namespace CwPlus.Ics20
open CwPlus

/-! ## Ghost histories without the admissibility filter -/

/-- One ghost step over an arbitrary op: no `admissible` filter (a forged or repeated acknowledgement /
timeout is executed like everything else). -/
def stepU (wg : World × Ghost) (blk : Block) (op : Op) : World × Ghost :=
  match wg.1.exec blk op with
  | .ok (w', o) => (w', wg.2.update w' op o)
  | .error _ => wg

/-- Ghost histories over all ops. -/
def runU (wg : World × Ghost) (ops : List (Block × Op)) : World × Ghost :=
  ops.foldl (fun wg o => stepU wg o.1 o.2) wg

theorem stepU_fst (wg : World × Ghost) (blk : Block) (op : Op) : (stepU wg blk op).1 = wg.1.step blk op := by
  unfold stepU World.step
  split <;> simp_all

/-- The world of the unfiltered ghost history is the plain history. -/
theorem runU_fst (wg : World × Ghost) (ops : List (Block × Op)) :
    (runU wg ops).1 = ops.foldl (fun w o => w.step o.1 o.2) wg.1 := by
  induction ops generalizing wg with
  | nil => rfl
  | cons op rest ih =>
    simp only [runU, List.foldl_cons] at ih ⊢
    rw [ih, stepU_fst]

theorem stepG_eq_stepU {wg : World × Ghost} {blk : Block} {op : Op} (h : admissible wg.2 op = true) :
    stepG wg blk op = stepU wg blk op := by
  unfold stepG stepU; simp only [h, if_true]
  split <;> simp_all

theorem stepU_ledger {wg : World × Ghost} (blk : Block) (op : Op) (hi : LedgerInv wg) : LedgerInv (stepU wg blk op) := by
  unfold stepU
  split
  · rename_i w' o h; exact exec_ledger (w := wg.1) (g := wg.2) hi h
  · exact hi

/-- The accounting invariant holds along every history, admissible or not. -/
theorem runU_ledger {wg : World × Ghost} (ops : List (Block × Op)) (hi : LedgerInv wg) : LedgerInv (runU wg ops) := by
  induction ops generalizing wg with
  | nil => exact hi
  | cons op rest ih => exact ih (stepU_ledger op.1 op.2 hi)

theorem stepU_totInv {t0 o0 : Key → Nat} {wg : World × Ghost} (blk : Block) (op : Op)
    (hwf : WellFormed wg.1.st) (hi : LedgerInv wg) (ht : TotInv t0 o0 wg) :
    WellFormed (stepU wg blk op).1.st ∧ LedgerInv (stepU wg blk op) ∧ TotInv t0 o0 (stepU wg blk op) := by
  refine ⟨?_, stepU_ledger blk op hi, ?_⟩
  · unfold stepU
    split
    · rename_i w' o h; exact exec_wellFormed hwf h
    · exact hwf
  · unfold stepU
    split
    · rename_i w' o h
      intro k
      have := exec_totSent (g := wg.2) hwf.1 hi h k
      have := ht k
      simp only at *
      omega
    · exact ht

/-- `sent` and the contract's `total_sent` move in lock step along every history. -/
theorem runU_totInv {t0 o0 : Key → Nat} {wg : World × Ghost} (ops : List (Block × Op))
    (hwf : WellFormed wg.1.st) (hi : LedgerInv wg) (ht : TotInv t0 o0 wg) : TotInv t0 o0 (runU wg ops) := by
  induction ops generalizing wg with
  | nil => exact ht
  | cons op rest ih =>
    obtain ⟨h1, h2, h3⟩ := stepU_totInv op.1 op.2 hwf hi ht
    exact ih h1 h2 h3

/-! ## Current-version contracts: no re-baselining -/

/-- The stored cw2 version is newer than 0.13.0 (`migrate` does not run `v2::update_balances`). -/
def PostV3S (s : State) : Prop := Version.lt MIGRATE_VERSION_3 s.version = true

theorem postV3S_current : Version.lt MIGRATE_VERSION_3 CONTRACT_VERSION = true := by decide

/-- `migrate` keeps the stored version or sets it to the current one. -/
theorem migrate_version {s s' : State} {gas : Option Nat} {hold : Denom → Option Nat}
    (h : migrate s gas hold = .ok s') : s'.version = s.version ∨ s'.version = CONTRACT_VERSION := by
  simp [migrate] at h
  obtain ⟨_, _, _, s1, h1, s2, h2, s3, h3, rfl⟩ := h
  have e1 : s1.version = s.version := by
    split at h1
    · split at h1
      · simp at h1
      · simp at h1; subst h1; rfl
    · simp at h1; subst h1; rfl
  have e2 : s2.version = s1.version := by
    split at h2
    · rcases updateBalances_cases h2 with ⟨_, rfl⟩ | ⟨_, _, _, _, rfl⟩ <;> rfl
    · simp at h2; subst h2; rfl
  have e3 : s3.version = s2.version := by
    split at h3
    · simp at h3; obtain ⟨cfg, _, rfl⟩ := h3; rfl
    · simp at h3; subst h3; rfl
  split
  · exact Or.inr rfl
  · exact Or.inl (by rw [e3, e2, e1])

/-- A migration of a current-version contract leaves the books alone. -/
theorem migrate_chan_postV3S {s s' : State} {gas : Option Nat} {hold : Denom → Option Nat}
    (hv : PostV3S s) (h : migrate s gas hold = .ok s') : s'.chan = s.chan := by
  obtain ⟨_, hb⟩ := migrate_books h
  rcases hb with ⟨_, e⟩ | ⟨hle, _⟩
  · exact e
  · unfold PostV3S at hv
    simp [Version.le, hv] at hle

/-- No transaction other than `migrate` touches the stored version; `migrate` keeps it or sets the
current one. -/
theorem exec_version {w w' : World} {blk : Block} {op : Op} {o : Outcome} (h : w.exec blk op = .ok (w', o)) :
    w'.st.version = w.st.version ∨ w'.st.version = CONTRACT_VERSION := by
  cases op with
  | connect id v cv ord peer =>
    exact Or.inl (exec_plain_frame h (Or.inl ⟨id, v, cv, ord, peer, rfl⟩)).2.2.2.2.2.1
  | chanOpen v cv ord => obtain ⟨rfl, _⟩ := exec_chanOpen h; exact Or.inl rfl
  | chanClose id => exact (exec_chanClose h).elim
  | allow snd c gg =>
    exact Or.inl (exec_plain_frame h (Or.inr (Or.inl ⟨snd, c, gg, rfl⟩))).2.2.2.2.2.1
  | updateAdmin snd a =>
    exact Or.inl (exec_plain_frame h (Or.inr (Or.inr ⟨snd, a, rfl⟩))).2.2.2.2.2.1
  | migrate gg => exact migrate_version (exec_migrate_frame h).1
  | transferNative snd funds msg =>
    obtain ⟨d, amt, w1, s, out, _, _, _, hs, rfl, rfl⟩ := exec_transferNative_spec h
    obtain ⟨ch, _, rfl, _⟩ := execTransfer_spec hs
    exact Or.inl rfl
  | sendCw20 snd token amt msg =>
    obtain ⟨w1, m, s, out, _, _, _, _, hs, rfl, rfl⟩ := exec_sendCw20_spec h
    obtain ⟨ch, _, rfl, _⟩ := execTransfer_spec hs
    exact Or.inl rfl
  | hook snd funds sender amt msg =>
    obtain ⟨m, s, out, _, _, hs, rfl, rfl⟩ := exec_hook_spec h
    obtain ⟨ch, _, rfl, _⟩ := execTransfer_spec hs
    exact Or.inl rfl
  | recv p rv tv f =>
    rcases exec_recv_cases h with ⟨_, rfl, _, _⟩ | ⟨s1, sub, hd, _, hc⟩
    · exact Or.inl rfl
    · obtain ⟨amt, d, ch, _, _, _, rfl, _⟩ := doReceive_spec hd
      rcases hc with ⟨hp, _⟩ | ⟨_, _, ra, ch2, _, _, rfl⟩
      · rw [(payout_frame hp).1]; exact Or.inl rfl
      · exact Or.inl rfl
  | ack chan data ackOk sv tv f =>
    rcases exec_ack_cases h with ⟨_, rfl, _, _⟩ | ⟨_, s1, sub, hf, _, hc⟩
    · exact Or.inl rfl
    · obtain ⟨p, ch, rfl, _, rfl, _⟩ := onPacketFailure_spec hf
      rcases hc with ⟨hp, _⟩ | ⟨_, rfl, _⟩
      · rw [(payout_frame hp).1]; exact Or.inl rfl
      · exact Or.inl rfl
  | timeout chan data sv tv f =>
    obtain ⟨s1, sub, hf, _, hc⟩ := exec_timeout_cases h
    obtain ⟨p, ch, rfl, _, rfl, _⟩ := onPacketFailure_spec hf
    rcases hc with ⟨hp, _⟩ | ⟨_, rfl, _⟩
    · rw [(payout_frame hp).1]; exact Or.inl rfl
    · exact Or.inl rfl

theorem exec_postV3S {w w' : World} {blk : Block} {op : Op} {o : Outcome}
    (hv : PostV3S w.st) (h : w.exec blk op = .ok (w', o)) : PostV3S w'.st := by
  unfold PostV3S at *
  rcases exec_version h with e | e <;> rw [e]
  · exact hv
  · exact postV3S_current

theorem step_postV3S {w : World} (blk : Block) (op : Op) (hv : PostV3S w.st) : PostV3S (w.step blk op).st := by
  unfold World.step
  split
  · rename_i w' o h; exact exec_postV3S hv h
  · exact hv

theorem instantiate_postV3S {m : InstMsg} {s : State} (h : instantiate m = .ok s) : PostV3S s := by
  simp [instantiate] at h
  obtain ⟨_, allow, _, rfl⟩ := h
  exact postV3S_current

/-! ## `sent` as the sum of the accepted transfers -/

/-- What a successful transaction escrows on key `k`, read off its outcome: the amount of the emitted
packet of an accepted transfer on that channel and denomination, nothing otherwise. -/
def escrowedBy (op : Op) (o : Outcome) (k : Key) : Nat :=
  match op with
  | .transferNative .. | .sendCw20 .. | .hook .. =>
    (match o.sent with
     | [out] => if k = (out.channel, out.packet.denom) then out.packet.amount else 0
     | _ => 0)
  | _ => 0

/-- Σ over the history of the amounts of the accepted transfers on key `k` (failed transactions
contribute nothing). -/
def sentOf (w : World) : List (Block × Op) → Key → Nat
  | [], _ => 0
  | (blk, op) :: rest, k =>
    (match w.exec blk op with
     | .ok (_, o) => escrowedBy op o k
     | .error _ => 0) + sentOf (w.step blk op) rest k

/-- For a current-version contract whose ledger is consistent the ghost update of a migration leaves
`sent` as it is: the "re-baselining" is the identity. -/
theorem update_migrate_sent_postV3 {w w' : World} {g : Ghost} {blk : Block} {gas : Option Nat} {o : Outcome}
    (hv : PostV3S w.st) (hi : LedgerInv (w, g)) (h : w.exec blk (.migrate gas) = .ok (w', o)) :
    (g.update w' (.migrate gas) o).sent = g.sent := by
  have e := migrate_chan_postV3S hv (exec_migrate_frame h).1
  funext k
  simp only [Ghost.update, e]
  exact hi.1 k

/-- One transaction of a current-version contract: `sent` grows by exactly what the transaction
escrows. -/
theorem update_sent_postV3 {w w' : World} {g : Ghost} {blk : Block} {op : Op} {o : Outcome}
    (hv : PostV3S w.st) (hi : LedgerInv (w, g)) (h : w.exec blk op = .ok (w', o)) (k : Key) :
    (g.update w' op o).sent k = g.sent k + escrowedBy op o k := by
  cases op with
  | migrate gas => rw [update_migrate_sent_postV3 hv hi h]; rfl
  | connect id v cv ord peer => rfl
  | chanOpen v cv ord => rfl
  | chanClose id => rfl
  | allow snd c gg => rfl
  | updateAdmin snd a => rfl
  | transferNative snd funds msg =>
    obtain ⟨d, amt, w1, s, out, _, _, _, _, _, rfl⟩ := exec_transferNative_spec h
    simp only [Ghost.update, escrowedBy, bump_apply]; split <;> rfl
  | sendCw20 snd token amt msg =>
    obtain ⟨w1, m, s, out, _, _, _, _, _, _, rfl⟩ := exec_sendCw20_spec h
    simp only [Ghost.update, escrowedBy, bump_apply]; split <;> rfl
  | hook snd funds sender amt msg =>
    obtain ⟨m, s, out, _, _, _, _, rfl⟩ := exec_hook_spec h
    simp only [Ghost.update, escrowedBy, bump_apply]; split <;> rfl
  | recv p rv tv f =>
    simp only [Ghost.update, escrowedBy]; split <;> rfl
  | ack chan data ackOk sv tv f =>
    cases data with
    | none => rfl
    | some p =>
      cases ackOk with
      | none => rfl
      | some b =>
        cases b
        · simp only [Ghost.update, Ghost.failure, escrowedBy]; split <;> rfl
        · rfl
  | timeout chan data sv tv f =>
    cases data with
    | none => rfl
    | some p => simp only [Ghost.update, Ghost.failure, escrowedBy]; split <;> rfl

/-- **`sent` is the sum of the accepted transfers** for a current-version contract, on every history
(migrations included): start value plus `sentOf`. -/
theorem runU_sent_postV3 {wg : World × Ghost} (ops : List (Block × Op)) (hv : PostV3S wg.1.st) (hi : LedgerInv wg)
    (k : Key) : (runU wg ops).2.sent k = wg.2.sent k + sentOf wg.1 ops k := by
  induction ops generalizing wg with
  | nil => rfl
  | cons op rest ih =>
    obtain ⟨blk, op⟩ := op
    have hv' : PostV3S (stepU wg blk op).1.st := by rw [stepU_fst]; exact step_postV3S blk op hv
    have := ih (wg := stepU wg blk op) hv' (stepU_ledger blk op hi)
    simp only [runU, List.foldl_cons] at this ⊢
    rw [this, stepU_fst]
    simp only [sentOf]
    cases hx : wg.1.exec blk op with
    | error e => simp [stepU, hx]
    | ok r =>
      obtain ⟨w', o⟩ := r
      have hu := update_sent_postV3 (g := wg.2) hv hi hx k
      simp only [stepU, hx]
      omega

/-! ## On histories that respect IBC core's guarantee nothing is skipped -/

/-- Every op of the history is `admissible` at the point where it happens (IBC core's guarantee as a
predicate on the history instead of a filter). -/
def AdmissibleFrom (wg : World × Ghost) : List (Block × Op) → Prop
  | [] => True
  | o :: rest => admissible wg.2 o.2 = true ∧ AdmissibleFrom (stepG wg o.1 o.2) rest

/-- On such a history `runG` skips nothing: it is the unfiltered ghost history, and its world is the plain
history. -/
theorem runG_eq_runU {wg : World × Ghost} (ops : List (Block × Op)) (h : AdmissibleFrom wg ops) :
    runG wg ops = runU wg ops := by
  induction ops generalizing wg with
  | nil => rfl
  | cons o rest ih =>
    have := ih h.2
    simp only [runG, runU, List.foldl_cons] at this ⊢
    rw [this, stepG_eq_stepU h.1]

end CwPlus.Ics20
