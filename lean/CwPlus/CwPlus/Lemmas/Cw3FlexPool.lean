import CwPlus.Lemmas.Cw3Flex
import CwPlus.Lemmas.Cw20Draw
/-!
# cw3-flex world: what the runtime's money movements do to one account

Point-wise effect of the three ways balances change in `Model/Cw3Flex.lean`:

* `Cw3Fixed.bankSend` (a `BankMsg::Send` of one coin; also each coin of `info.funds`): `bankSend_get`,
* `moveFunds` (the funds attached to a transaction, moved before the handler runs): `moveFunds_get_to`,
* `Cw20.execute` on the deposit token, seen from one account `a`:
  - sent by somebody else, while `a` has granted no allowance: `a`'s balance does not decrease and `a` still has
    granted no allowance (`cw20_external`),
  - `Transfer` sent by `a` itself: the balance drops by at most the amount (`cw20_transfer_self`),
  - `TransferFrom { owner, recipient }` with `a` as spender: the owner is not `a` (it granted nothing), `a`'s balance
    grows by the amount when `a` is the recipient (`cw20_transferFrom_self`).

Used by the deposit-pool accounting of `Props/C15.lean`.  Core only.
-/
namespace CwPlus.Cw3Flex
open CwPlus CwPlus.Cw3 CwPlus.Cw3Core

/-! ## bank -/

/-- Exact effect of a successful `bankSend` on every `(account, denom)` entry (covers `frm = to`: net zero). -/
theorem bankSend_get {bank b : AMap (Addr × String) Nat} {frm to : Addr} {amt : Nat} {denom : String}
    (h : Cw3Fixed.bankSend bank frm to amt denom = .ok b) (x : Addr) (d : String) :
    amt ≠ 0 ∧ amt ≤ (bank.get? (frm, denom)).getD 0 ∧
    (b.get? (x, d)).getD 0 =
      if d = denom then
        (if x = to then (if to = frm then (bank.get? (frm, denom)).getD 0 else (bank.get? (to, denom)).getD 0 + amt)
         else if x = frm then (bank.get? (frm, denom)).getD 0 - amt else (bank.get? (x, d)).getD 0)
      else (bank.get? (x, d)).getD 0 := by
  simp [Cw3Fixed.bankSend] at h
  obtain ⟨hne, hle, _, rfl⟩ := h
  refine ⟨hne, hle, ?_⟩
  by_cases hd : d = denom
  · subst hd
    simp only [if_true]
    by_cases hx : x = to
    · subst hx
      simp only [if_true, AMap.get?_set_eq, Option.getD_some]
      by_cases hf : x = frm
      · subst hf; simp; omega
      · have : (frm, d) ≠ (x, d) := by intro e; cases e; exact hf rfl
        simp [hf, AMap.get?_set_ne _ _ _ _ this]
    · have h1 : (to, d) ≠ (x, d) := by intro e; cases e; exact hx rfl
      simp only [hx, if_false, AMap.get?_set_ne _ _ _ _ h1]
      by_cases hf : x = frm
      · subst hf; simp
      · have h2 : (frm, d) ≠ (x, d) := by intro e; cases e; exact hf rfl
        simp [hf, AMap.get?_set_ne _ _ _ _ h2]
  · have h1 : (to, denom) ≠ (x, d) := by intro e; cases e; exact hd rfl
    have h2 : (frm, denom) ≠ (x, d) := by intro e; cases e; exact hd rfl
    simp [hd, AMap.get?_set_ne _ _ _ _ h1, AMap.get?_set_ne _ _ _ _ h2]

/-- A send *by* `a`: `a`'s holding of denom `d` drops by at most the amount, and not at all for another denom. -/
theorem bankSend_from {bank b : AMap (Addr × String) Nat} {a to : Addr} {amt : Nat} {denom : String}
    (h : Cw3Fixed.bankSend bank a to amt denom = .ok b) (d : String) :
    (bank.get? (a, d)).getD 0 ≤ (b.get? (a, d)).getD 0 + (if denom = d then amt else 0) := by
  obtain ⟨_, hle, hg⟩ := bankSend_get h a d
  rw [hg]
  by_cases hd : d = denom
  · subst hd
    by_cases ht : a = to
    · subst ht; simp
    · simp [ht]; omega
  · have : ¬ denom = d := fun e => hd e.symm
    simp [hd, this]

/-- A send *to* `a` by somebody else: `a`'s holding of the coin's denom grows by exactly the amount. -/
theorem bankSend_to {bank b : AMap (Addr × String) Nat} {frm a : Addr} {amt : Nat} {denom : String}
    (h : Cw3Fixed.bankSend bank frm a amt denom = .ok b) (hne : frm ≠ a) (d : String) :
    (b.get? (a, d)).getD 0 = (bank.get? (a, d)).getD 0 + (if denom = d then amt else 0) := by
  obtain ⟨_, _, hg⟩ := bankSend_get h a d
  rw [hg]
  have hne' : ¬ a = frm := fun e => hne e.symm
  by_cases hd : d = denom
  · subst hd; simp [hne']
  · have : ¬ denom = d := fun e => hd e.symm
    simp [hd, this]

/-- Σ of the amounts of the coins of denom `d` in `info.funds`. -/
def fundsOf (d : String) (funds : List Coin) : Nat := ((funds.filter (fun c => c.denom = d)).map (·.amount)).sum

@[simp] theorem fundsOf_nil (d : String) : fundsOf d [] = 0 := rfl

theorem fundsOf_cons (d : String) (c : Coin) (rest : List Coin) :
    fundsOf d (c :: rest) = (if c.denom = d then c.amount else 0) + fundsOf d rest := by
  unfold fundsOf
  by_cases h : c.denom = d <;> simp [h]

theorem moveCoins_get_to {frm a : Addr} (hne : frm ≠ a) (d : String) :
    ∀ (funds : List Coin) (bank b : AMap (Addr × String) Nat), moveCoins bank frm a funds = .ok b →
      (b.get? (a, d)).getD 0 = (bank.get? (a, d)).getD 0 + fundsOf d funds
  | [], bank, b, h => by simp [moveCoins] at h; subst h; simp
  | c :: rest, bank, b, h => by
    simp only [moveCoins, Res.bind_ok] at h
    obtain ⟨b1, h1, h2⟩ := h
    rw [moveCoins_get_to hne d rest b1 b h2, fundsOf_cons]
    by_cases hz : c.amount = 0
    · simp [hz] at h1; subst h1; simp [hz]
    · simp only [hz, if_false] at h1
      rw [bankSend_to h1 hne d]; omega

/-- The funds attached to a transaction by somebody other than the receiving contract `a`: `a`'s holding of every
denom grows by exactly what `info.funds` carries of it. -/
theorem moveFunds_get_to {bank b : AMap (Addr × String) Nat} {frm a : Addr} {funds : List Coin}
    (h : moveFunds bank frm a funds = .ok b) (hne : frm ≠ a) (d : String) :
    (b.get? (a, d)).getD 0 = (bank.get? (a, d)).getD 0 + fundsOf d funds := by
  unfold moveFunds at h
  split at h
  · rename_i he
    simp at h; subst h
    have : funds = [] := by simpa using he
    subst this; simp
  · split at h
    · simp at h
    · exact moveCoins_get_to hne d funds bank b h

/-! ## the cw20 deposit token -/

/-- `a` has granted no allowance (no `ALLOWANCES` entry with owner `a`). -/
def NoGrant (t : Cw20.State) (a : Addr) : Prop := ∀ sp, t.allow.get? (a, sp) = none

theorem noGrant_set {t : Cw20.State} {a o sp : Addr} (h : NoGrant t a) (ho : o ≠ a) (v : Cw20.Allowance)
    (al : AMap (Addr × Addr) Cw20.Allowance) (hal : al = t.allow.set (o, sp) v) : ∀ sp', al.get? (a, sp') = none := by
  intro sp'
  subst hal
  have : (o, sp) ≠ (a, sp') := by intro e; cases e; exact ho rfl
  rw [AMap.get?_set_ne _ _ _ _ this]; exact h sp'

theorem noGrant_erase {t : Cw20.State} {a : Addr} (h : NoGrant t a) (k : Addr × Addr) :
    ∀ sp', (t.allow.erase k).get? (a, sp') = none := by
  intro sp'
  rw [AMap.get?_erase]; split
  · rfl
  · exact h sp'

/-- `deduct_allowance(owner, spender)` succeeds only for an owner that has granted something. -/
theorem deduct_owner_ne {t t1 : Cw20.State} {blk : Block} {o sp a : Addr} {amt : Nat}
    (h : Cw20.deduct t blk o sp amt = .ok t1) (hn : NoGrant t a) :
    o ≠ a ∧ NoGrant t1 a ∧ t1.balances = t.balances := by
  obtain ⟨al, al2, h1, _, _, _, _, _, rfl⟩ := Cw20.deduct_ok.mp h
  have ho : o ≠ a := by intro e; subst e; rw [hn sp] at h1; cases h1
  exact ⟨ho, noGrant_set hn ho _ _ rfl, rfl⟩

theorem credit_ge {b b' : AMap Addr Nat} {x : Addr} {amt : Nat} (h : Cw20.credit b x amt = .ok b') (a : Addr) :
    (b.get? a).getD 0 ≤ (b'.get? a).getD 0 := by
  rw [Cw20.credit_get h a]; split
  · rename_i e; subst e; omega
  · exact Nat.le_refl _

theorem debit_ne {b b' : AMap Addr Nat} {x a : Addr} {amt : Nat} (h : Cw20.debit b x amt = .ok b') (hne : x ≠ a) :
    (b'.get? a).getD 0 = (b.get? a).getD 0 := by
  have hne' : ¬ a = x := fun e => hne e.symm
  rw [Cw20.debit_get h a, if_neg hne']

/-- **The token seen from an account that granted no allowance, when somebody else sends the message**: whatever the
message (all twelve `ExecuteMsg` variants), the account's balance does not decrease and it still has granted nothing. -/
theorem cw20_external {t t' : Cw20.State} {blk : Block} {snd a : Addr} {m : Cw20.Msg} {out : List Cw20.Out}
    (h : Cw20.execute t blk snd m = .ok (t', out)) (hne : snd ≠ a) (hn : NoGrant t a) :
    NoGrant t' a ∧ Cw20.bal t a ≤ Cw20.bal t' a := by
  have hne' : ¬ a = snd := fun e => hne e.symm
  cases m with
  | transfer to amt =>
    obtain ⟨_, b1, b2, h1, h2, rfl, _⟩ := Cw20.execTransfer_inv h
    refine ⟨hn, ?_⟩
    have := credit_ge h2 a; rw [debit_ne h1 hne] at this; exact this
  | burn amt =>
    obtain ⟨b1, h1, _, rfl, _⟩ := Cw20.execBurn_inv h
    refine ⟨hn, ?_⟩
    simp [Cw20.bal, Cw20.debit_get h1 a, hne']
  | send c amt p =>
    obtain ⟨_, b1, b2, h1, h2, rfl, _⟩ := Cw20.execSend_inv h
    refine ⟨hn, ?_⟩
    have := credit_ge h2 a; rw [debit_ne h1 hne] at this; exact this
  | mint to amt =>
    obtain ⟨b, h1, hb, ha, _, _⟩ := Cw20.execMint_inv h
    refine ⟨fun sp => by rw [ha]; exact hn sp, ?_⟩
    simp only [Cw20.bal, hb]; exact credit_ge h1 a
  | updateMinter new =>
    obtain ⟨hb, _, ha, _, _⟩ := Cw20.execUpdateMinter_inv h
    exact ⟨fun sp => by rw [ha]; exact hn sp, by simp [Cw20.bal, hb]⟩
  | increaseAllowance sp amt e =>
    obtain ⟨_, _, _, _, _, rfl, _⟩ := Cw20.execIncreaseAllowance_inv h
    exact ⟨noGrant_set hn hne _ _ rfl, Nat.le_refl _⟩
  | decreaseAllowance sp amt e =>
    obtain ⟨_, _, old, _, _, hc⟩ := Cw20.execDecreaseAllowance_inv h
    rcases hc with ⟨_, _, rfl⟩ | ⟨_, rfl⟩
    · exact ⟨noGrant_set hn hne _ _ rfl, Nat.le_refl _⟩
    · exact ⟨noGrant_erase hn _, Nat.le_refl _⟩
  | transferFrom o to amt =>
    obtain ⟨_, _, s1, b1, b2, hd, h1, h2, rfl, _⟩ := Cw20.execTransferFrom_inv h
    obtain ⟨ho, hn1, _⟩ := deduct_owner_ne hd hn
    have ho' : ¬ a = o.text := fun e => ho e.symm
    refine ⟨hn1, ?_⟩
    have := credit_ge h2 a; rw [debit_ne h1 ho] at this; exact this
  | burnFrom o amt =>
    obtain ⟨_, s1, b1, hd, h1, _, rfl, _⟩ := Cw20.execBurnFrom_inv h
    obtain ⟨ho, hn1, _⟩ := deduct_owner_ne hd hn
    have ho' : ¬ a = o.text := fun e => ho e.symm
    refine ⟨hn1, ?_⟩
    simp [Cw20.bal, Cw20.debit_get h1 a, ho']
  | sendFrom o c amt p =>
    obtain ⟨_, _, s1, b1, b2, hd, h1, h2, rfl, _⟩ := Cw20.execSendFrom_inv h
    obtain ⟨ho, hn1, _⟩ := deduct_owner_ne hd hn
    have ho' : ¬ a = o.text := fun e => ho e.symm
    refine ⟨hn1, ?_⟩
    have := credit_ge h2 a; rw [debit_ne h1 ho] at this; exact this
  | updateMarketing p d mk =>
    simp only [Cw20.execute] at h
    unfold Cw20.execUpdateMarketing at h
    split at h
    · simp at h
    · split at h
      · simp at h
      · simp at h
        obtain ⟨_, addr, _, h⟩ := h
        split at h <;> (simp at h; obtain ⟨rfl, _⟩ := h; exact ⟨hn, Nat.le_refl _⟩)
  | uploadLogo l =>
    simp only [Cw20.execute] at h
    unfold Cw20.execUploadLogo at h
    split at h
    · simp at h
    · simp at h
      obtain ⟨_, h⟩ := h
      split at h
      · simp at h
      · simp at h; obtain ⟨_, rfl, _⟩ := h; exact ⟨hn, Nat.le_refl _⟩

/-- `Transfer { recipient, amount }` sent by `a` itself: the balance drops by at most the amount (not at all when
`a` is the recipient), the debit was covered, no allowance changes. -/
theorem cw20_transfer_self {t t' : Cw20.State} {blk : Block} {a : Addr} {to : Cw20.AddrArg} {amt : Nat}
    {out : List Cw20.Out} (h : Cw20.execute t blk a (.transfer to amt) = .ok (t', out)) :
    t'.allow = t.allow ∧ amt ≤ Cw20.bal t a ∧ Cw20.bal t a ≤ Cw20.bal t' a + amt := by
  obtain ⟨_, b1, b2, h1, h2, rfl, _⟩ := Cw20.execTransfer_inv h
  obtain ⟨hle, hg⟩ := Cw20.move_get h1 h2 a
  refine ⟨rfl, hle, ?_⟩
  simp only [Cw20.bal, hg]
  by_cases e : a = to.text
  · simp [e]
  · simp [e]; omega

/-- `TransferFrom { owner, recipient, amount }` with `a` as the *spender*, while `a` has granted no allowance: the
owner is not `a`; `a`'s balance grows by exactly the amount when `a` is the recipient and is unchanged otherwise. -/
theorem cw20_transferFrom_self {t t' : Cw20.State} {blk : Block} {a : Addr} {o to : Cw20.AddrArg} {amt : Nat}
    {out : List Cw20.Out} (h : Cw20.execute t blk a (.transferFrom o to amt) = .ok (t', out)) (hn : NoGrant t a) :
    o.text ≠ a ∧ NoGrant t' a ∧ Cw20.bal t' a = Cw20.bal t a + (if to.text = a then amt else 0) := by
  obtain ⟨_, _, s1, b1, b2, hd, h1, h2, rfl, _⟩ := Cw20.execTransferFrom_inv h
  obtain ⟨ho, hn1, _⟩ := deduct_owner_ne hd hn
  have ho' : ¬ a = o.text := fun e => ho e.symm
  refine ⟨ho, hn1, ?_⟩
  simp only [Cw20.bal]
  rw [Cw20.credit_get h2 a]
  by_cases e : a = to.text
  · have e' : to.text = a := e.symm
    rw [if_pos e, if_pos e', ← e, debit_ne h1 ho]
  · have e' : ¬ to.text = a := fun x => e x.symm
    rw [if_neg e, if_neg e', debit_ne h1 ho]; rfl

end CwPlus.Cw3Flex
