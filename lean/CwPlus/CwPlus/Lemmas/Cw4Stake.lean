import CwPlus.Model.Cw4Stake
/-!
Helper lemmas about the cw4-stake model: snapshot-map reads after a write, sums over the claims map,
the closed form of `update_membership`, message delivery, and one specification lemma per transaction
kind (`tx_*_ok`) from which the property theorems (`Props/C10`, `Props/C09Stake`, `Props/C14Stake`) follow.
-/
namespace CwPlus.Cw4Stake
open CwPlus CwPlus.Snapshot

/-! ## SnapMap: current value after a write -/

theorem snap_get?_write (m : SnapMap Addr Nat) (k k' : Addr) (h : Nat) (new : Option Nat) :
    (m.write k h new).get? k' = if k = k' then new else m.get? k' := by
  unfold SnapMap.write SnapMap.get?
  cases new with
  | none => simp [AMap.get?_erase]
  | some v => simp [AMap.get?_set]

theorem snap_cur_write_some (m : SnapMap Addr Nat) (k : Addr) (h v : Nat) :
    (m.write k h (some v)).cur = m.cur.set k v := by
  simp [SnapMap.write]

theorem snap_cur_write_none (m : SnapMap Addr Nat) (k : Addr) (h : Nat) :
    (m.write k h none).cur = m.cur.erase k := by
  simp [SnapMap.write]

/-! ## Sums over the claims map -/

/-- Σ over all addresses of the amounts of their claims. -/
def claimTotal (m : AMap Addr (List Claim)) : Nat := (m.map (fun p => amountSum p.2)).sum

@[simp] theorem claimTotal_nil : claimTotal [] = 0 := rfl

theorem claimTotal_set (m : AMap Addr (List Claim)) (k : Addr) (v : List Claim) :
    claimTotal (m.set k v) + amountSum ((m.get? k).getD []) = claimTotal m + amountSum v := by
  induction m with
  | nil => simp [AMap.set, AMap.get?, claimTotal, amountSum]
  | cons p rest ih =>
    obtain ⟨k', v'⟩ := p
    by_cases h : k' = k
    · subst h; simp [AMap.set, AMap.get?, claimTotal]; omega
    · simp [AMap.set, AMap.get?, h, claimTotal] at ih ⊢; omega

theorem amountSum_append (a b : List Claim) : amountSum (a ++ b) = amountSum a + amountSum b := by
  simp [amountSum]

/-- Matured and waiting claims partition the list. -/
theorem amountSum_matured_waiting (blk : Block) (l : List Claim) :
    amountSum (matured blk l) + amountSum (waiting blk l) = amountSum l := by
  induction l with
  | nil => simp [matured, waiting, amountSum]
  | cons c rest ih =>
    simp only [matured, waiting, amountSum] at ih ⊢
    by_cases h : c.releaseAt.isExpired blk <;> simp [List.filter, h] <;> omega

theorem matured_waiting (blk : Block) (l : List Claim) : matured blk (waiting blk l) = [] := by
  simp [matured, waiting, List.filter_filter]

/-! ## `Duration::after` -/

theorem afterChecked_ok {d : Duration} {b : Block} {e : Expiration} (h : afterChecked d b = .ok e) :
    e = d.after b := by
  cases d with
  | height n => simp [afterChecked] at h; obtain ⟨a, ⟨_, rfl⟩, rfl⟩ := h; rfl
  | time s => simp [afterChecked] at h; obtain ⟨_, a, ⟨_, rfl⟩, rfl⟩ := h; rfl

/-! ## `update_membership` in closed form -/

/-- The effect of `update_membership` once the new weight is known. -/
def um (s : State) (h : Nat) (a : Addr) (new : Option Nat) : State × List Out :=
  if new = s.members.get? a then (s, [])
  else ({ s with members := s.members.write a h new,
                 total := s.total + new.getD 0 - (s.members.get? a).getD 0 },
        s.hooks.map (fun hk => Out.hook hk a (s.members.get? a) new))

theorem updateMembership_ok {s : State} {h : Nat} {a : Addr} {ns : Nat} {r : State × List Out}
    (hr : updateMembership s h a ns = .ok r) :
    ∃ new, calcWeight s.cfg ns = .ok new ∧ r = um s h a new ∧
      (new ≠ s.members.get? a →
        s.total + new.getD 0 ≤ U64_MAX ∧ (s.members.get? a).getD 0 ≤ s.total + new.getD 0) := by
  unfold updateMembership at hr
  simp only [Res.bind_ok] at hr
  obtain ⟨new, hc, hr⟩ := hr
  refine ⟨new, hc, ?_⟩
  by_cases hn : new = s.members.get? a
  · simp [hn] at hr
    subst hr
    simp [um, hn]
  · simp [hn] at hr
    obtain ⟨h1, t2, ⟨h2, rfl⟩, rfl⟩ := hr
    simp [um, hn, h1, h2]

theorem um_frame (s : State) (h : Nat) (a : Addr) (new : Option Nat) :
    (um s h a new).1.cfg = s.cfg ∧ (um s h a new).1.admin = s.admin ∧ (um s h a new).1.hooks = s.hooks ∧
    (um s h a new).1.stake = s.stake ∧ (um s h a new).1.claims = s.claims := by
  unfold um; split <;> simp

theorem um_get? (s : State) (h : Nat) (a x : Addr) (new : Option Nat) :
    (um s h a new).1.members.get? x = if a = x then new else s.members.get? x := by
  unfold um
  split
  · rename_i hn
    by_cases hx : a = x
    · subst hx; simp [hn]
    · simp [hx]
  · simp [snap_get?_write]

theorem um_out (s : State) (h : Nat) (a : Addr) (new : Option Nat) :
    (um s h a new).2 = if new = s.members.get? a then []
      else s.hooks.map (fun hk => Out.hook hk a (s.members.get? a) new) := by
  unfold um; split <;> simp

theorem um_out_hooks (s : State) (h : Nat) (a : Addr) (new : Option Nat) :
    ∀ o ∈ (um s h a new).2, ∃ hk k old nw, o = Out.hook hk k old nw := by
  intro o ho
  rw [um_out] at ho
  split at ho
  · simp at ho
  · simp at ho
    obtain ⟨hk, _, rfl⟩ := ho
    exact ⟨hk, a, _, _, rfl⟩

theorem calcWeight_ok {cfg : Config} {st : Nat} {w : Option Nat} (h : calcWeight cfg st = .ok w) :
    w = (if st < cfg.minBond then none else some (st / cfg.tokensPerWeight)) ∧
    (cfg.minBond ≤ st → cfg.tokensPerWeight ≠ 0 ∧ st / cfg.tokensPerWeight ≤ U64_MAX) := by
  unfold calcWeight at h
  split at h
  · rename_i hlt; simp at h; subst h; simp [hlt]; omega
  · rename_i hge
    split at h
    · simp at h
    · split at h
      · simp at h; subst h; simp [hge]; omega
      · simp at h

/-! ## Delivery of messages -/

/-- Tokens paid out by a list of messages. -/
def outPaid : List Out → Nat
  | [] => 0
  | .bank _ amt _ :: rest => amt + outPaid rest
  | .cw20Transfer _ _ amt :: rest => amt + outPaid rest
  | .hook _ _ _ _ :: rest => outPaid rest

theorem payOut_ok {w w' : World} {a : Addr} {amt : Nat} (h : payOut w a amt = .ok w') :
    amt ≤ w.held ∧ w' = { w with bal := w.bal.set a (balOf w a + amt), held := w.held - amt } := by
  simp [payOut] at h
  exact ⟨h.1, h.2.symm⟩

theorem payIn_ok {w w' : World} {a : Addr} {amt : Nat} (h : payIn w a amt = .ok w') :
    amt ≤ balOf w a ∧ w' = { w with bal := w.bal.set a (balOf w a - amt), held := w.held + amt } := by
  simp [payIn] at h
  exact ⟨h.1, h.2.symm⟩

theorem deliver_frame {w w' : World} {out : List Out} (h : deliver w out = .ok w') :
    w'.st = w.st ∧ w'.extra = w.extra ∧ w'.accepting = w.accepting ∧ w'.held + outPaid out = w.held := by
  induction out generalizing w with
  | nil => simp [deliver] at h; subst h; simp [outPaid]
  | cons o rest ih =>
    cases o with
    | hook hk k old new =>
      simp [deliver] at h
      have := ih h.2
      simpa [outPaid] using this
    | bank to amt d =>
      simp [deliver] at h
      obtain ⟨_, _, w1, h1, h2⟩ := h
      obtain ⟨hle, rfl⟩ := payOut_ok h1
      obtain ⟨e1, e2, e3, e4⟩ := ih h2
      simp [outPaid] at e1 e2 e3 e4 ⊢
      exact ⟨e1, e2, e3, by omega⟩
    | cw20Transfer t to amt =>
      simp [deliver] at h
      obtain ⟨_, w1, h1, h2⟩ := h
      obtain ⟨hle, rfl⟩ := payOut_ok h1
      obtain ⟨e1, e2, e3, e4⟩ := ih h2
      simp [outPaid] at e1 e2 e3 e4 ⊢
      exact ⟨e1, e2, e3, by omega⟩

/-- Hook messages move no funds: delivery succeeds iff every target accepts, and changes nothing. -/
theorem deliver_hooks {w w' : World} {out : List Out}
    (hh : ∀ o ∈ out, ∃ hk k old nw, o = Out.hook hk k old nw) (h : deliver w out = .ok w') : w' = w := by
  induction out generalizing w with
  | nil => simp [deliver] at h; exact h.symm
  | cons o rest ih =>
    obtain ⟨hk, k, old, nw, rfl⟩ := hh o (by simp)
    simp [deliver] at h
    exact ih (fun o ho => hh o (by simp [ho])) h.2

theorem deliver_hooks_accepting {w w' : World} {out : List Out} (h : deliver w out = .ok w') :
    ∀ hk k old nw, Out.hook hk k old nw ∈ out → hk ∈ w.accepting := by
  induction out generalizing w with
  | nil => simp
  | cons o rest ih =>
    intro hk k old nw hm
    cases o with
    | hook hk' k' old' new' =>
      simp [deliver] at h
      simp at hm
      rcases hm with ⟨rfl, _, _, _⟩ | hm
      · exact h.1
      · exact ih h.2 hk k old nw hm
    | bank to amt d =>
      simp [deliver] at h
      obtain ⟨_, _, w1, h1, h2⟩ := h
      obtain ⟨_, rfl⟩ := payOut_ok h1
      simp at hm
      exact ih h2 hk k old nw hm
    | cw20Transfer t to amt =>
      simp [deliver] at h
      obtain ⟨_, w1, h1, h2⟩ := h
      obtain ⟨_, rfl⟩ := payOut_ok h1
      simp at hm
      exact ih h2 hk k old nw hm

/-- Delivery of a single payout message. -/
theorem deliver_payout {w w' : World} {to : Addr} {amt : Nat}
    (h : deliver w [payout w.st.cfg.denom to amt] = .ok w') :
    amt ≤ w.held ∧ w' = { w with bal := w.bal.set to (balOf w to + amt), held := w.held - amt } := by
  unfold payout at h
  split at h
  · simp [deliver, payOut] at h
    exact ⟨h.2.2.1, h.2.2.2.symm⟩
  · simp [deliver, payOut] at h
    exact ⟨h.2.1, h.2.2.symm⟩

/-- A payout the holdings cover is delivered. -/
theorem deliver_payout_ok (w : World) (to : Addr) (amt : Nat) (h0 : amt ≠ 0) (hle : amt ≤ w.held) :
    ∃ w', deliver w [payout w.st.cfg.denom to amt] = .ok w' := by
  cases hd : w.st.cfg.denom with
  | native d =>
    simp [payout, deliver, check, hd, h0, payOut, subU128, hle, bind, Except.bind, pure, Except.pure]
  | cw20 t =>
    simp [payout, deliver, check, hd, payOut, subU128, hle, bind, Except.bind, pure, Except.pure]

/-! ## Specification of the handlers -/

theorem paidAmount_native_ok {denom : Denom} {coins : List (String × Nat)} {amt : Nat}
    (h : paidAmount denom (.native coins) = .ok amt) : ∃ d, denom = .native d ∧ coins = [(d, amt)] := by
  cases denom with
  | native want =>
    match coins, h with
    | [], h => simp [paidAmount] at h
    | [(d, a)], h =>
      simp [paidAmount] at h
      split at h
      · rename_i hd; simp at h; subst h; subst hd; exact ⟨d, rfl, rfl⟩
      · simp at h
    | _ :: _ :: _, h => simp [paidAmount] at h
  | cw20 t => simp [paidAmount] at h

theorem paidAmount_cw20_ok {denom : Denom} {t : Addr} {a amt : Nat}
    (h : paidAmount denom (.cw20 t a) = .ok amt) : denom = .cw20 t ∧ amt = a := by
  cases denom with
  | native want => simp [paidAmount] at h
  | cw20 t' =>
    simp [paidAmount] at h
    split at h
    · rename_i hw; simp at h; subst hw; exact ⟨rfl, h.symm⟩
    · simp at h

theorem stakeCoins_single (d : String) (amt : Nat) : stakeCoins (.native d) [(d, amt)] = amt := by
  simp [stakeCoins]

/-- Successful `execute_bond`: stake of the staker rises by the paid amount, then `update_membership`. -/
theorem execBond_ok {s : State} {blk : Block} {staker : Addr} {p : Paid} {r : State × List Out}
    (h : execBond s blk staker p = .ok r) :
    ∃ amt new, paidAmount s.cfg.denom p = .ok amt ∧ stakeOf s staker + amt ≤ U128_MAX ∧
      calcWeight s.cfg (stakeOf s staker + amt) = .ok new ∧
      r = um { s with stake := s.stake.set staker (stakeOf s staker + amt) } blk.height staker new ∧
      (new ≠ s.members.get? staker →
        s.total + new.getD 0 ≤ U64_MAX ∧ (s.members.get? staker).getD 0 ≤ s.total + new.getD 0) := by
  simp [execBond] at h
  obtain ⟨amt, hp, hle, hu⟩ := h
  obtain ⟨new, hc, hr, ht⟩ := updateMembership_ok hu
  exact ⟨amt, new, hp, hle, hc, hr, ht⟩

theorem execUnbond_ok {s : State} {blk : Block} {snd : Addr} {amt : Nat} {r : State × List Out}
    (h : execUnbond s blk snd amt = .ok r) :
    ∃ new, amt ≤ stakeOf s snd ∧ calcWeight s.cfg (stakeOf s snd - amt) = .ok new ∧
      r = um { s with stake := s.stake.set snd (stakeOf s snd - amt),
                      claims := s.claims.set snd (claimsOf s snd ++ [⟨amt, s.cfg.period.after blk⟩]) }
            blk.height snd new ∧
      (new ≠ s.members.get? snd →
        s.total + new.getD 0 ≤ U64_MAX ∧ (s.members.get? snd).getD 0 ≤ s.total + new.getD 0) := by
  simp [execUnbond] at h
  obtain ⟨hle, rel, hrel, hu⟩ := h
  have := afterChecked_ok hrel
  subst this
  obtain ⟨new, hc, hr, ht⟩ := updateMembership_ok hu
  exact ⟨new, hle, hc, hr, ht⟩

theorem execClaim_ok {s : State} {blk : Block} {snd : Addr} {r : State × List Out}
    (h : execClaim s blk snd = .ok r) :
    amountSum (matured blk (claimsOf s snd)) ≠ 0 ∧
    r = ({ s with claims := s.claims.set snd (waiting blk (claimsOf s snd)) },
         [payout s.cfg.denom snd (amountSum (matured blk (claimsOf s snd)))]) := by
  simp [execClaim] at h
  exact ⟨h.2.1, h.2.2.symm⟩

/-! ## Specification of the transactions -/

theorem finish_ok {w w' : World} {r : State × List Out} {out : List Out}
    (h : finish w r = .ok (w', out)) : deliver { w with st := r.1 } r.2 = .ok w' ∧ out = r.2 := by
  simp [finish] at h
  obtain ⟨w1, h1, rfl, rfl⟩ := h
  exact ⟨h1, rfl⟩

/-- Storage after the `STAKE.update` of `execute_bond`. -/
def bondState (s : State) (snd : Addr) (amt : Nat) : State :=
  { s with stake := s.stake.set snd (stakeOf s snd + amt) }

/-- Storage after `STAKE.update` and `CLAIMS.create_claim` of `execute_unbond`. -/
def unbondState (s : State) (blk : Block) (snd : Addr) (amt : Nat) : State :=
  { s with stake := s.stake.set snd (stakeOf s snd - amt),
           claims := s.claims.set snd (claimsOf s snd ++ [⟨amt, s.cfg.period.after blk⟩]) }

/-- `amt` stake tokens of `snd` were bonded at height `h`: the funds moved, the stake rose by exactly
`amt`, the membership was updated, only hook messages were sent (all accepted). -/
def Deposited (w w' : World) (h : Nat) (snd : Addr) (amt : Nat) (out : List Out) : Prop :=
  ∃ new, amt ≤ balOf w snd ∧ stakeOf w.st snd + amt ≤ U128_MAX ∧
    calcWeight w.st.cfg (stakeOf w.st snd + amt) = .ok new ∧
    (w'.st, out) = um (bondState w.st snd amt) h snd new ∧
    (new ≠ w.st.members.get? snd →
      w.st.total + new.getD 0 ≤ U64_MAX ∧ (w.st.members.get? snd).getD 0 ≤ w.st.total + new.getD 0) ∧
    w'.held = w.held + amt ∧ w'.bal = w.bal.set snd (balOf w snd - amt) ∧
    w'.extra = w.extra ∧ w'.accepting = w.accepting

/-- `snd` unbonded `amt` at block `blk`. -/
def Unbonded (w w' : World) (blk : Block) (snd : Addr) (amt : Nat) (out : List Out) : Prop :=
  ∃ new, amt ≤ stakeOf w.st snd ∧ calcWeight w.st.cfg (stakeOf w.st snd - amt) = .ok new ∧
    (w'.st, out) = um (unbondState w.st blk snd amt) blk.height snd new ∧
    (new ≠ w.st.members.get? snd →
      w.st.total + new.getD 0 ≤ U64_MAX ∧ (w.st.members.get? snd).getD 0 ≤ w.st.total + new.getD 0) ∧
    w'.held = w.held ∧ w'.bal = w.bal ∧ w'.extra = w.extra ∧ w'.accepting = w.accepting

/-- `snd` claimed at block `blk`: all matured claims are paid in one message and removed. -/
def Claimed (w w' : World) (blk : Block) (snd : Addr) (out : List Out) : Prop :=
  let due := amountSum (matured blk (claimsOf w.st snd))
  due ≠ 0 ∧ due ≤ w.held ∧ out = [payout w.st.cfg.denom snd due] ∧
  w'.st = { w.st with claims := w.st.claims.set snd (waiting blk (claimsOf w.st snd)) } ∧
  w'.held = w.held - due ∧ w'.bal = w.bal.set snd (balOf w snd + due) ∧
  w'.extra = w.extra ∧ w'.accepting = w.accepting

theorem tx_deposit {w w1 w' : World} {blk : Block} {snd : Addr} {amt : Nat} {p : Paid} {r : State × List Out}
    {out : List Out} (hp : paidAmount w.st.cfg.denom p = .ok amt)
    (h1 : payIn w snd amt = .ok w1) (hb : execBond w1.st blk snd p = .ok r) (hf : finish w1 r = .ok (w', out)) :
    Deposited w w' blk.height snd amt out := by
  obtain ⟨hle, rfl⟩ := payIn_ok h1
  obtain ⟨amt', new, hp', hfit, hc, hr, ht⟩ := execBond_ok hb
  simp only at hp' hfit hc hr ht
  rw [hp] at hp'
  cases hp'
  obtain ⟨hd, rfl⟩ := finish_ok hf
  subst hr
  have := deliver_hooks (um_out_hooks _ _ _ _) hd
  subst this
  exact ⟨new, hle, hfit, hc, rfl, ht, rfl, rfl, rfl, rfl⟩

theorem tx_bond_ok {w w' : World} {blk : Block} {snd : Addr} {coins : List (String × Nat)} {out : List Out}
    (h : tx w blk (.bond snd coins) = .ok (w', out)) :
    ∃ d amt, w.st.cfg.denom = .native d ∧ coins = [(d, amt)] ∧ amt ≠ 0 ∧ Deposited w w' blk.height snd amt out := by
  simp only [tx, execute] at h
  simp only [Res.bind_ok, check_ok] at h
  obtain ⟨_, hz, w1, h1, r, hb, hf⟩ := h
  have hcfg : w1.st = w.st := by obtain ⟨_, rfl⟩ := payIn_ok h1; rfl
  obtain ⟨amt, new, hp, _⟩ := execBond_ok hb
  rw [hcfg] at hp
  obtain ⟨d, hd, rfl⟩ := paidAmount_native_ok hp
  rw [hd, stakeCoins_single] at h1
  refine ⟨d, amt, hd, rfl, ?_, tx_deposit hp h1 hb hf⟩
  simpa using hz

theorem tx_send_ok {w w' : World} {blk : Block} {snd token : Addr} {amt : Nat} {ok : Bool} {out : List Out}
    (h : tx w blk (.send snd token amt ok) = .ok (w', out)) :
    w.st.cfg.denom = .cw20 token ∧ ok = true ∧ Deposited w w' blk.height snd amt out := by
  simp only [tx, execute] at h
  split at h
  · rename_i hd
    simp only [Res.bind_ok] at h
    obtain ⟨w1, h1, r, hb, hf⟩ := h
    simp only [execReceive, Res.bind_ok, check_ok] at hb
    obtain ⟨_, hok, _, _, hb⟩ := hb
    have hcfg : w1.st = w.st := by obtain ⟨_, rfl⟩ := payIn_ok h1; rfl
    obtain ⟨amt', new, hp, _⟩ := execBond_ok hb
    rw [hcfg] at hp
    obtain ⟨_, rfl⟩ := paidAmount_cw20_ok hp
    exact ⟨hd, hok, tx_deposit hp h1 hb hf⟩
  · rename_i hd
    simp only [Res.bind_ok, Res.pure_ok] at h
    obtain ⟨w1, rfl, r, hb, hf⟩ := h
    simp only [execReceive, Res.bind_ok, check_ok] at hb
    obtain ⟨_, hok, _, _, hb⟩ := hb
    obtain ⟨amt', new, hp, _⟩ := execBond_ok hb
    exact absurd (paidAmount_cw20_ok hp).1 hd

theorem tx_receive_never {w w' : World} {blk : Block} {snd : Addr} {sender : AddrArg} {amt : Nat} {ok : Bool}
    {out : List Out} (h : tx w blk (.receive snd sender amt ok) = .ok (w', out)) : False := by
  simp only [tx, execute] at h
  simp only [Res.bind_ok, check_ok] at h
  obtain ⟨_, hne, r, hb, _⟩ := h
  simp only [execReceive, Res.bind_ok, check_ok] at hb
  obtain ⟨_, _, _, _, hb⟩ := hb
  obtain ⟨amt', new, hp, _⟩ := execBond_ok hb
  obtain ⟨hd, _⟩ := paidAmount_cw20_ok hp
  simp [hd] at hne

theorem tx_unbond_ok {w w' : World} {blk : Block} {snd : Addr} {amt : Nat} {out : List Out}
    (h : tx w blk (.unbond snd amt) = .ok (w', out)) : Unbonded w w' blk snd amt out := by
  simp only [tx, execute] at h
  simp only [Res.bind_ok] at h
  obtain ⟨r, hu, hf⟩ := h
  obtain ⟨new, hle, hc, hr, ht⟩ := execUnbond_ok hu
  obtain ⟨hd, rfl⟩ := finish_ok hf
  subst hr
  have := deliver_hooks (um_out_hooks _ _ _ _) hd
  subst this
  exact ⟨new, hle, hc, rfl, ht, rfl, rfl, rfl, rfl⟩

theorem tx_claim_ok {w w' : World} {blk : Block} {snd : Addr} {out : List Out}
    (h : tx w blk (.claim snd) = .ok (w', out)) : Claimed w w' blk snd out := by
  simp only [tx, execute] at h
  simp only [Res.bind_ok] at h
  obtain ⟨r, hc, hf⟩ := h
  obtain ⟨hne, rfl⟩ := execClaim_ok hc
  obtain ⟨hd, rfl⟩ := finish_ok hf
  simp only at hd
  have hd' := deliver_payout (w := { w with st := { w.st with claims := w.st.claims.set snd (waiting blk (claimsOf w.st snd)) } })
    (to := snd) (amt := amountSum (matured blk (claimsOf w.st snd))) (w' := w') hd
  obtain ⟨hle, rfl⟩ := hd'
  exact ⟨hne, hle, rfl, rfl, rfl, rfl, rfl, rfl⟩

/-- Admin / hook operations: only `admin` / `hooks` change, by the admin, no messages, no funds. -/
theorem tx_updateAdmin_ok {w w' : World} {blk : Block} {snd : Addr} {a : Option AddrArg} {out : List Out}
    (h : tx w blk (.updateAdmin snd a) = .ok (w', out)) :
    w.st.admin = some snd ∧ out = [] ∧ ∃ adm, w' = { w with st := { w.st with admin := adm } } := by
  simp only [tx, execute] at h
  simp only [Res.bind_ok] at h
  obtain ⟨r, hu, hf⟩ := h
  obtain ⟨hd, rfl⟩ := finish_ok hf
  simp [execUpdateAdmin, isAdmin] at hu
  obtain ⟨adm, _, hadm, rfl⟩ := hu
  simp [deliver] at hd
  exact ⟨hadm, rfl, adm, hd.symm⟩

theorem tx_addHook_ok {w w' : World} {blk : Block} {snd : Addr} {a : AddrArg} {out : List Out}
    (h : tx w blk (.addHook snd a) = .ok (w', out)) :
    w.st.admin = some snd ∧ out = [] ∧ a.text ∉ w.st.hooks ∧
      w' = { w with st := { w.st with hooks := w.st.hooks ++ [a.text] } } := by
  simp only [tx, execute] at h
  simp only [Res.bind_ok] at h
  obtain ⟨r, hu, hf⟩ := h
  obtain ⟨hd, rfl⟩ := finish_ok hf
  simp [execAddHook, isAdmin] at hu
  obtain ⟨_, hadm, hnot, rfl⟩ := hu
  simp [deliver] at hd
  exact ⟨hadm, rfl, hnot, hd.symm⟩

theorem tx_removeHook_ok {w w' : World} {blk : Block} {snd : Addr} {a : AddrArg} {out : List Out}
    (h : tx w blk (.removeHook snd a) = .ok (w', out)) :
    w.st.admin = some snd ∧ out = [] ∧ a.text ∈ w.st.hooks ∧
      w' = { w with st := { w.st with hooks := w.st.hooks.erase a.text } } := by
  simp only [tx, execute] at h
  simp only [Res.bind_ok] at h
  obtain ⟨r, hu, hf⟩ := h
  obtain ⟨hd, rfl⟩ := finish_ok hf
  simp [execRemoveHook, isAdmin] at hu
  obtain ⟨_, hadm, hin, rfl⟩ := hu
  simp [deliver] at hd
  exact ⟨hadm, rfl, hin, hd.symm⟩

theorem tx_donate_ok {w w' : World} {blk : Block} {snd : Addr} {amt : Nat} {out : List Out}
    (h : tx w blk (.donate snd amt) = .ok (w', out)) :
    amt ≤ balOf w snd ∧ out = [] ∧
      w' = { w with bal := w.bal.set snd (balOf w snd - amt), held := w.held + amt, extra := w.extra + amt } := by
  simp only [tx] at h
  simp only [Res.bind_ok, check_ok] at h
  obtain ⟨_, _, w1, h1, h2⟩ := h
  obtain ⟨hle, rfl⟩ := payIn_ok h1
  simp at h2
  exact ⟨hle, h2.2, h2.1.symm⟩

/-! ## Histories -/

theorem step_ok {w w' : World} {blk : Block} {op : Op} {out : List Out} (h : tx w blk op = .ok (w', out)) :
    step w blk op = w' := by
  simp [step, h]

theorem step_error {w : World} {blk : Block} {op : Op} {e : String} (h : tx w blk op = .error e) :
    step w blk op = w := by
  simp [step, h]

/-- Anything preserved by every successful transaction holds along every history
(failed transactions are rolled back). -/
theorem run_inv (P : World → Prop)
    (hstep : ∀ w blk op w' out, P w → tx w blk op = .ok (w', out) → P w')
    {w : World} (h0 : P w) (ops : List (Block × Op)) : P (run w ops) := by
  induction ops generalizing w with
  | nil => exact h0
  | cons o rest ih =>
    simp only [run, List.foldl_cons]
    apply ih
    unfold step
    split
    · rename_i w' out h; exact hstep _ _ _ _ _ h0 h
    · exact h0

@[simp] theorem run_nil (w : World) : run w [] = w := rfl
@[simp] theorem run_cons (w : World) (o : Block × Op) (ops : List (Block × Op)) :
    run w (o :: ops) = run (step w o.1 o.2) ops := rfl

theorem run_append (w : World) (a b : List (Block × Op)) : run w (a ++ b) = run (run w a) b := by
  simp [run, List.foldl_append]

/-- Pairs `(w'.st, out) = um …` split into their components. -/
theorem um_pair {st : State} {out : List Out} {s : State} {h : Nat} {a : Addr} {new : Option Nat}
    (e : (st, out) = um s h a new) : st = (um s h a new).1 ∧ out = (um s h a new).2 := by
  rw [← e]; exact ⟨rfl, rfl⟩

/-! ## Messages emitted along a history -/

/-- The messages of one transaction of a history: those of the handler when it succeeds, none when the
transaction fails (and is rolled back). -/
def stepOut (w : World) (blk : Block) (op : Op) : List Out :=
  match tx w blk op with
  | .ok (_, out) => out
  | .error _ => []

/-- All messages emitted along a history, in order. -/
def outs (w : World) : List (Block × Op) → List Out
  | [] => []
  | o :: rest => stepOut w o.1 o.2 ++ outs (step w o.1 o.2) rest

@[simp] theorem outs_nil (w : World) : outs w [] = [] := rfl
@[simp] theorem outs_cons (w : World) (o : Block × Op) (ops : List (Block × Op)) :
    outs w (o :: ops) = stepOut w o.1 o.2 ++ outs (step w o.1 o.2) ops := rfl

theorem outs_append (w : World) (a b : List (Block × Op)) :
    outs w (a ++ b) = outs w a ++ outs (run w a) b := by
  induction a generalizing w with
  | nil => simp
  | cons o rest ih => simp [ih, List.append_assoc]

theorem stepOut_ok {w w' : World} {blk : Block} {op : Op} {out : List Out} (h : tx w blk op = .ok (w', out)) :
    stepOut w blk op = out := by
  simp [stepOut, h]

theorem stepOut_error {w : World} {blk : Block} {op : Op} {e : String} (h : tx w blk op = .error e) :
    stepOut w blk op = [] := by
  simp [stepOut, h]

/-- A transaction either succeeds (state and messages are those of `tx`) or is rolled back silently. -/
theorem step_cases (w : World) (blk : Block) (op : Op) :
    (∃ w' out, tx w blk op = .ok (w', out) ∧ step w blk op = w' ∧ stepOut w blk op = out ∧
        (tx w blk op).isOk = true) ∨
    (step w blk op = w ∧ stepOut w blk op = [] ∧ (tx w blk op).isOk = false) := by
  cases h : tx w blk op with
  | ok r => obtain ⟨w', out⟩ := r; exact Or.inl ⟨w', out, rfl, by simp [step, h], by simp [stepOut, h], rfl⟩
  | error e => exact Or.inr ⟨by simp [step, h], by simp [stepOut, h], rfl⟩

end CwPlus.Cw4Stake
