import CwPlus.Lemmas.Ics20
/-!
Helper lemmas for the upgrade path of cw20-ics20 (`migrate` from a stored version ≤ 0.13.0, which runs
`v2::update_balances`): exact effect of the reconciliation loop on `outstanding` *and* `total_sent`,
the storage well-formedness invariant (`WellFormed`: distinct keys, every key belongs to a known
channel) and its preservation by every transaction, and the single-channel sum lemma used by C11.
-/
namespace CwPlus.Ics20
open CwPlus

/-! ## Association-list facts about the channel-state map -/

theorem get?_of_mem_nodup {m : ChanMap} (hnd : AMap.NodupKeys m) {e : Key × ChanState} (he : e ∈ m) :
    m.get? e.1 = some e.2 := by
  induction m with
  | nil => cases he
  | cons x rest ih =>
    obtain ⟨k, v⟩ := x
    simp only [AMap.NodupKeys, AMap.keys, List.map_cons, List.nodup_cons] at hnd
    simp at he
    rcases he with rfl | he
    · simp [AMap.get?]
    · have hne : k ≠ e.1 := by
        intro eq; apply hnd.1; rw [eq]; exact List.mem_map_of_mem he
      simp [AMap.get?, hne]; exact ih hnd.2 he

theorem mem_of_get? {m : ChanMap} {k : Key} {v : ChanState} (h : m.get? k = some v) : (k, v) ∈ m := by
  induction m with
  | nil => simp [AMap.get?] at h
  | cons x rest ih =>
    obtain ⟨k', v'⟩ := x
    by_cases hk : k' = k
    · subst hk; simp [AMap.get?] at h; subst h; simp
    · simp [AMap.get?, hk] at h; simp; right; exact ih h

theorem mem_keys_of_get? {m : ChanMap} {k : Key} {v : ChanState} (h : m.get? k = some v) : k ∈ AMap.keys m := by
  have := mem_of_get? h
  exact List.mem_map_of_mem (f := (·.1)) this

theorem outAt_of_not_mem_keys {m : ChanMap} {k : Key} (h : k ∉ AMap.keys m) : outAt m k = 0 := by
  simp [outAt, AMap.get?_eq_none_iff.mpr h]

theorem totAt_of_not_mem_keys {m : ChanMap} {k : Key} (h : k ∉ AMap.keys m) : totAt m k = 0 := by
  simp [totAt, AMap.get?_eq_none_iff.mpr h]

/-! ## `v2::update_balances`: exact effect -/

/-- The reconciliation loop, entry by entry: an entry of the migrated channel ends with
`outstanding = real balance` and `total_sent` increased by the same difference; every other key is
untouched; no key is added. -/
theorem updateDenoms_get? (ch : String) (hold : Denom → Option Nat) (es : List (Key × ChanState))
    (m m' : ChanMap) (h : updateDenoms ch hold es m = .ok m')
    (hnd : (es.map (·.1)).Nodup) (hagree : ∀ e ∈ es, m.get? e.1 = some e.2) :
    (∀ e ∈ es, e.1.1 = ch → ∃ bal, hold e.1.2 = some bal ∧ e.2.outstanding ≤ bal ∧
        m'.get? e.1 = some ⟨bal, e.2.totalSent + (bal - e.2.outstanding)⟩) ∧
    (∀ k, (k ∉ es.map (·.1) ∨ k.1 ≠ ch) → m'.get? k = m.get? k) ∧
    AMap.keys m' = AMap.keys m := by
  induction es generalizing m with
  | nil => simp [updateDenoms] at h; subst h; simp
  | cons e rest ih =>
    obtain ⟨⟨c, d⟩, cs⟩ := e
    simp only [List.map_cons, List.nodup_cons] at hnd
    obtain ⟨hnotin, hnd'⟩ := hnd
    have hhead : m.get? (c, d) = some cs := hagree ((c, d), cs) (by simp)
    unfold updateDenoms at h
    split at h
    · rename_i hc
      split at h
      · simp at h
      · rename_i bal hbal
        simp at h
        obtain ⟨hle, h⟩ := h
        have key : ∃ m1, updateDenoms ch hold rest m1 = .ok m' ∧
            m1.get? (c, d) = some ⟨bal, cs.totalSent + (bal - cs.outstanding)⟩ ∧
            (∀ k, k ≠ (c, d) → m1.get? k = m.get? k) ∧ AMap.keys m1 = AMap.keys m := by
          split at h
          · rename_i hz
            refine ⟨m, h, ?_, fun _ _ => rfl, rfl⟩
            have e1 : bal = cs.outstanding := by omega
            rw [hhead, e1]; simp
          · simp at h
            obtain ⟨_, _, h⟩ := h
            refine ⟨_, h, ?_, ?_, AMap.keys_set_of_mem (mem_keys_of_get? hhead)⟩
            · have e1 : cs.outstanding + (bal - cs.outstanding) = bal := by omega
              simp [e1]
            · intro k hk; exact AMap.get?_set_ne _ _ _ _ (Ne.symm hk)
        obtain ⟨m1, h1, hget, hframe, hkeys⟩ := key
        have hagree' : ∀ e ∈ rest, m1.get? e.1 = some e.2 := by
          intro e he
          have hne : e.1 ≠ (c, d) := by
            intro eq; apply hnotin; rw [← eq]; exact List.mem_map_of_mem he
          rw [hframe _ hne]; exact hagree e (by simp [he])
        obtain ⟨ih1, ih2, ih3⟩ := ih m1 h1 hnd' hagree'
        refine ⟨?_, ?_, by rw [ih3, hkeys]⟩
        · intro e he hch
          simp at he
          rcases he with rfl | he
          · refine ⟨bal, hbal, hle, ?_⟩
            rw [ih2 (c, d) (Or.inl hnotin)]; exact hget
          · exact ih1 e he hch
        · intro k hk
          have hk' : k ≠ (c, d) := by
            rcases hk with hk | hk
            · intro eq; apply hk; simp [eq]
            · intro eq; apply hk; rw [eq]; exact hc
          have : k ∉ rest.map (·.1) ∨ k.1 ≠ ch := by
            rcases hk with hk | hk
            · left; intro hin; apply hk; simp at hin ⊢; right; exact hin
            · right; exact hk
          rw [ih2 k this, hframe k hk']
    · rename_i hc
      have hagree' : ∀ e ∈ rest, m.get? e.1 = some e.2 := fun e he => hagree e (by simp [he])
      obtain ⟨ih1, ih2, ih3⟩ := ih m h hnd' hagree'
      refine ⟨?_, ?_, ih3⟩
      · intro e he hch
        simp at he
        rcases he with rfl | he
        · exact absurd hch hc
        · exact ih1 e he hch
      · intro k hk
        by_cases hkk : k = (c, d)
        · subst hkk; exact ih2 (c, d) (Or.inl hnotin)
        · apply ih2 k
          rcases hk with hk | hk
          · left; intro hin; apply hk; simp at hin ⊢; right; exact hin
          · right; exact hk

/-- The two successful shapes of `v2::update_balances`. -/
theorem updateBalances_cases {s s' : State} {hold : Denom → Option Nat} (h : updateBalances s hold = .ok s') :
    (s.channels = [] ∧ s' = s) ∨
    (∃ ch m, s.channels = [ch] ∧ updateDenoms ch hold s.chan s.chan = .ok m ∧ s' = { s with chan := m }) := by
  unfold updateBalances at h
  split at h
  · rename_i hch; simp at h; exact Or.inl ⟨hch, h.symm⟩
  · rename_i ch hch
    simp at h
    obtain ⟨m, hm, rfl⟩ := h
    exact Or.inr ⟨ch, m, hch, hm, rfl⟩
  · simp at h

/-- `v2::update_balances` on a one-channel contract with distinct storage keys: every denomination with an
entry on the channel ends with `outstanding = real balance ≥ old outstanding` and `total_sent` increased
by exactly the difference; every key of another channel is untouched; no key is added. -/
theorem updateBalances_full {s s' : State} {hold : Denom → Option Nat} {ch : String}
    (hch : s.channels = [ch]) (hnd : AMap.NodupKeys s.chan) (h : updateBalances s hold = .ok s') :
    (∀ d cs, s.chan.get? (ch, d) = some cs → ∃ bal, hold d = some bal ∧ cs.outstanding ≤ bal ∧
        s'.chan.get? (ch, d) = some ⟨bal, cs.totalSent + (bal - cs.outstanding)⟩) ∧
    (∀ k, (k ∉ AMap.keys s.chan ∨ k.1 ≠ ch) → s'.chan.get? k = s.chan.get? k) ∧
    AMap.keys s'.chan = AMap.keys s.chan ∧
    s' = { s with chan := s'.chan } := by
  rcases updateBalances_cases h with ⟨h0, _⟩ | ⟨ch', m, hch', hm, rfl⟩
  · rw [hch] at h0; cases h0
  · rw [hch] at hch'; cases hch'
    obtain ⟨r1, r2, r3⟩ := updateDenoms_get? ch hold s.chan s.chan m hm hnd (fun e he => get?_of_mem_nodup hnd he)
    exact ⟨fun d cs hg => r1 ((ch, d), cs) (mem_of_get? hg) rfl, r2, r3, rfl⟩

/-! ## What `migrate` does to the books -/

/-- `migrate` never touches the channel list; the books are either unchanged (stored version newer than
0.13.0) or rewritten by `v2::update_balances` (stored version ≤ 0.13.0). -/
theorem migrate_books {s s' : State} {gas : Option Nat} {hold : Denom → Option Nat}
    (h : migrate s gas hold = .ok s') :
    s'.channels = s.channels ∧
    ((Version.le s.version MIGRATE_VERSION_3 = false ∧ s'.chan = s.chan) ∨
     (Version.le s.version MIGRATE_VERSION_3 = true ∧
        ∃ s1 s2, s1.chan = s.chan ∧ s1.channels = s.channels ∧ updateBalances s1 hold = .ok s2 ∧
          s'.chan = s2.chan)) := by
  simp [migrate] at h
  obtain ⟨_, _, _, s1, h1, s2, h2, s3, h3, rfl⟩ := h
  have e1 : s1.chan = s.chan ∧ s1.channels = s.channels := by
    split at h1
    · split at h1
      · simp at h1
      · simp at h1; subst h1; exact ⟨rfl, rfl⟩
    · simp at h1; subst h1; exact ⟨rfl, rfl⟩
  have e3 : s3.chan = s2.chan ∧ s3.channels = s2.channels := by
    split at h3
    · simp at h3; obtain ⟨cfg, _, rfl⟩ := h3; exact ⟨rfl, rfl⟩
    · simp at h3; subst h3; exact ⟨rfl, rfl⟩
  have e4 : ∀ (t : State), (if Version.lt s.version CONTRACT_VERSION = true then { t with version := CONTRACT_VERSION } else t).chan = t.chan ∧
      (if Version.lt s.version CONTRACT_VERSION = true then { t with version := CONTRACT_VERSION } else t).channels = t.channels := by
    intro t; split <;> exact ⟨rfl, rfl⟩
  cases hv : Version.le s.version MIGRATE_VERSION_3 with
  | false =>
    simp [hv] at h2; subst h2
    exact ⟨by rw [(e4 s3).2, e3.2, e1.2], Or.inl ⟨rfl, by rw [(e4 s3).1, e3.1, e1.1]⟩⟩
  | true =>
    simp [hv] at h2
    have e2 : s2.channels = s1.channels := by
      rcases updateBalances_cases h2 with ⟨_, rfl⟩ | ⟨_, _, _, _, rfl⟩ <;> rfl
    exact ⟨by rw [(e4 s3).2, e3.2, e2, e1.2], Or.inr ⟨rfl, s1, s2, e1.1, e1.2, h2, by rw [(e4 s3).1, e3.1]⟩⟩

/-! ## Storage well-formedness and its preservation -/

/-- The channel-state map as the storage engine keeps it: distinct keys, and every key belongs to a
channel of `CHANNEL_INFO` (`increase_channel_balance` is only reached after the channel lookup of
`execute_transfer`; all other writers overwrite existing keys). -/
def WellFormed (s : State) : Prop :=
  AMap.NodupKeys s.chan ∧ ∀ k ∈ AMap.keys s.chan, k.1 ∈ s.channels

theorem wellFormed_of_keys {s s' : State} (h : WellFormed s) (hk : AMap.keys s'.chan = AMap.keys s.chan)
    (hc : ∀ c ∈ s.channels, c ∈ s'.channels) : WellFormed s' := by
  obtain ⟨h1, h2⟩ := h
  refine ⟨?_, ?_⟩
  · unfold AMap.NodupKeys at *; rw [hk]; exact h1
  · intro k hkm; rw [hk] at hkm; exact hc _ (h2 k hkm)

theorem wellFormed_set {s s' : State} (h : WellFormed s) (k : Key) (v : ChanState)
    (hk : k ∈ AMap.keys s.chan ∨ k.1 ∈ s.channels) (hc : s'.chan = s.chan.set k v)
    (hch : ∀ c ∈ s.channels, c ∈ s'.channels) : WellFormed s' := by
  obtain ⟨h1, h2⟩ := h
  refine ⟨by rw [hc]; exact AMap.nodup_set h1, ?_⟩
  intro x hx
  rw [hc] at hx
  rcases AMap.mem_keys_set.mp hx with hx | rfl
  · exact hch _ (h2 x hx)
  · rcases hk with hk | hk
    · exact hch _ (h2 x hk)
    · exact hch _ hk

theorem wellFormed_increase {s s' : State} {ch : ChanMap} {c : String} {d : Denom} {amt : Nat} (h : WellFormed s)
    (hinc : increaseBalance s.chan c d amt = .ok ch) (hmem : c ∈ s.channels) (hc : s'.chan = ch)
    (hch : s'.channels = s.channels) : WellFormed s' := by
  simp [increaseBalance] at hinc
  obtain ⟨_, _, rfl⟩ := hinc
  exact wellFormed_set h (c, d) _ (Or.inr hmem) hc (by intro x hx; rw [hch]; exact hx)

theorem wellFormed_reduce {s s' : State} {ch : ChanMap} {c : String} {d : Denom} {amt : Nat} (h : WellFormed s)
    (hred : reduceBalance s.chan c d amt = .ok ch) (hc : s'.chan = ch) (hch : s'.channels = s.channels) :
    WellFormed s' := by
  obtain ⟨cs, hg, _, rfl, _, _⟩ := reduceBalance_spec hred
  exact wellFormed_set h (c, d) _ (Or.inl (mem_keys_of_get? hg)) hc (by intro x hx; rw [hch]; exact hx)

theorem updateBalances_keys {s s' : State} {hold : Denom → Option Nat} (hnd : AMap.NodupKeys s.chan)
    (h : updateBalances s hold = .ok s') : AMap.keys s'.chan = AMap.keys s.chan ∧ s'.channels = s.channels := by
  rcases updateBalances_cases h with ⟨_, rfl⟩ | ⟨ch, m, hch, hm, rfl⟩
  · exact ⟨rfl, rfl⟩
  · exact ⟨(updateDenoms_get? ch hold s.chan s.chan m hm hnd (fun e he => get?_of_mem_nodup hnd he)).2.2, rfl⟩

theorem migrate_wellFormed {s s' : State} {gas : Option Nat} {hold : Denom → Option Nat} (hwf : WellFormed s)
    (h : migrate s gas hold = .ok s') : WellFormed s' := by
  obtain ⟨hch, hb⟩ := migrate_books h
  apply wellFormed_of_keys hwf _ (by intro c hc; rw [hch]; exact hc)
  rcases hb with ⟨_, e⟩ | ⟨_, s1, s2, e1, _, hu, e2⟩
  · rw [e]
  · have := (updateBalances_keys (by rw [e1]; exact hwf.1) hu).1
    rw [e2, this, e1]

/-- Every successful transaction keeps the storage well-formed. -/
theorem exec_wellFormed {w w' : World} {blk : Block} {op : Op} {o : Outcome}
    (hwf : WellFormed w.st) (h : w.exec blk op = .ok (w', o)) : WellFormed w'.st := by
  cases op with
  | connect id v cv ord =>
    simp [World.exec, ibcChannelConnect] at h
    obtain ⟨s, ⟨_, _, rfl⟩, rfl, rfl⟩ := h
    refine wellFormed_of_keys (s := w.st) hwf rfl ?_
    intro c hc
    dsimp only
    split
    · exact hc
    · exact List.mem_append_left _ hc
  | chanOpen v cv ord => obtain ⟨rfl, _⟩ := exec_chanOpen h; exact hwf
  | chanClose id => exact (exec_chanClose h).elim
  | allow snd c gg =>
    simp only [World.exec] at h
    simp at h
    obtain ⟨s, hs, rfl, rfl⟩ := h
    simp [execAllow] at hs
    obtain ⟨_, _, _, rfl⟩ := hs
    exact hwf
  | updateAdmin snd a =>
    simp only [World.exec] at h
    simp at h
    obtain ⟨s, hs, rfl, rfl⟩ := h
    simp [execUpdateAdmin] at hs
    obtain ⟨_, _, rfl⟩ := hs
    exact hwf
  | migrate gg => exact migrate_wellFormed hwf (exec_migrate_frame h).1
  | transferNative snd funds msg =>
    obtain ⟨d, amt, w1, s, out, _, _, _, hs, rfl, rfl⟩ := exec_transferNative_spec h
    obtain ⟨ch, hinc, rfl, _, _, hmem, _⟩ := execTransfer_spec hs
    exact wellFormed_increase hwf hinc hmem rfl rfl
  | sendCw20 snd token amt msg =>
    obtain ⟨w1, m, s, out, _, _, _, _, hs, rfl, rfl⟩ := exec_sendCw20_spec h
    obtain ⟨ch, hinc, rfl, _, _, hmem, _⟩ := execTransfer_spec hs
    exact wellFormed_increase hwf hinc hmem rfl rfl
  | hook snd funds sender amt msg =>
    obtain ⟨m, s, out, _, _, hs, rfl, rfl⟩ := exec_hook_spec h
    obtain ⟨ch, hinc, rfl, _, _, hmem, _⟩ := execTransfer_spec hs
    exact wellFormed_increase hwf hinc hmem rfl rfl
  | recv p rv tv f =>
    rcases exec_recv_cases h with ⟨_, rfl, _, _⟩ | ⟨s1, sub, hd, _, hc⟩
    · exact hwf
    · obtain ⟨amt, d, ch, _, _, hred, rfl, _⟩ := doReceive_spec hd
      rcases hc with ⟨hp, _⟩ | ⟨_, _, ra, ch2, hra, hundo, rfl⟩
      · rw [(payout_frame hp).1]
        exact wellFormed_reduce hwf hred rfl rfl
      · simp at hra; subst hra
        have := undoReduce_reduce_eq hred hundo
        subst this
        exact hwf
  | ack chan data ackOk sv tv f =>
    rcases exec_ack_cases h with ⟨_, rfl, _, _⟩ | ⟨_, s1, sub, hf, _, hc⟩
    · exact hwf
    · obtain ⟨p, ch, rfl, hred, rfl, _⟩ := onPacketFailure_spec hf
      rcases hc with ⟨hp, _⟩ | ⟨_, rfl, _⟩
      · rw [(payout_frame hp).1]; exact wellFormed_reduce hwf hred rfl rfl
      · exact wellFormed_reduce hwf hred rfl rfl
  | timeout chan data sv tv f =>
    obtain ⟨s1, sub, hf, _, hc⟩ := exec_timeout_cases h
    obtain ⟨p, ch, rfl, hred, rfl, _⟩ := onPacketFailure_spec hf
    rcases hc with ⟨hp, _⟩ | ⟨_, rfl, _⟩
    · rw [(payout_frame hp).1]; exact wellFormed_reduce hwf hred rfl rfl
    · exact wellFormed_reduce hwf hred rfl rfl

theorem step_wellFormed {w : World} (blk : Block) (op : Op) (hwf : WellFormed w.st) : WellFormed (w.step blk op).st := by
  unfold World.step
  split
  · rename_i w' o h; exact exec_wellFormed hwf h
  · exact hwf

/-- A freshly instantiated contract is well-formed. -/
theorem instantiate_wellFormed {m : InstMsg} {s : State} (h : instantiate m = .ok s) : WellFormed s := by
  simp [instantiate] at h
  obtain ⟨_, allow, _, rfl⟩ := h
  exact ⟨by simp [AMap.NodupKeys, AMap.keys], by intro k hk; simp [AMap.keys] at hk⟩

/-! ## One channel: the sum over channels is the entry of that channel -/

theorem sumDenom_single {m : ChanMap} {ch : String} (hnd : AMap.NodupKeys m) (hk : ∀ k ∈ AMap.keys m, k.1 = ch)
    (d : Denom) : sumDenom m d = outAt m (ch, d) := by
  induction m with
  | nil => simp [sumDenom, outAt]
  | cons e rest ih =>
    obtain ⟨⟨c, d'⟩, cs⟩ := e
    simp only [AMap.NodupKeys, AMap.keys, List.map_cons, List.nodup_cons] at hnd
    have hc : c = ch := hk (c, d') (by simp [AMap.keys])
    subst hc
    have ih' := ih hnd.2 (fun k hkm => hk k (by simp [AMap.keys] at hkm ⊢; right; exact hkm))
    by_cases hd : d' = d
    · subst hd
      have h0 : outAt rest (c, d') = 0 := outAt_of_not_mem_keys hnd.1
      simp [sumDenom, outAt, AMap.get?] at ih' h0 ⊢
      omega
    · have hne : ¬ ((c, d') = (c, d)) := by intro e; cases e; exact hd rfl
      have e1 : outAt (((c, d'), cs) :: rest) (c, d) = outAt rest (c, d) := by simp [outAt, AMap.get?, hne]
      rw [e1, ← ih']; simp [sumDenom, hd]

theorem sumDenom_no_channels {s : State} (hwf : WellFormed s) (h0 : s.channels = []) (d : Denom) :
    sumDenom s.chan d = 0 := by
  have : s.chan = [] := by
    cases hm : s.chan with
    | nil => rfl
    | cons e rest =>
      have := hwf.2 e.1 (by rw [hm]; simp [AMap.keys])
      rw [h0] at this; cases this
  rw [this]; rfl

/-- After `v2::update_balances` on a well-formed one-channel contract, the sum over channels of the
outstanding balance of a denomination is the real balance when the channel has an entry for it and zero
otherwise. -/
theorem updateBalances_sum {s s' : State} {hold : Denom → Option Nat} {ch : String}
    (hch : s.channels = [ch]) (hwf : WellFormed s) (h : updateBalances s hold = .ok s') (d : Denom) :
    (∀ cs, s.chan.get? (ch, d) = some cs → ∃ bal, hold d = some bal ∧ cs.outstanding ≤ bal ∧
        sumDenom s'.chan d = bal ∧ outAt s'.chan (ch, d) = bal ∧
        totAt s'.chan (ch, d) = cs.totalSent + (bal - cs.outstanding)) ∧
    (s.chan.get? (ch, d) = none → sumDenom s'.chan d = 0) := by
  obtain ⟨r1, r2, r3, _⟩ := updateBalances_full hch hwf.1 h
  have hk' : ∀ k ∈ AMap.keys s'.chan, k.1 = ch := by
    intro k hk; rw [r3] at hk
    have := hwf.2 k hk; rw [hch] at this; simpa using this
  have hnd' : AMap.NodupKeys s'.chan := by unfold AMap.NodupKeys; rw [r3]; exact hwf.1
  have hsum := sumDenom_single hnd' hk' d
  constructor
  · intro cs hg
    obtain ⟨bal, hb, hle, hget⟩ := r1 d cs hg
    refine ⟨bal, hb, hle, ?_, ?_, ?_⟩
    · rw [hsum]; simp [outAt, hget]
    · simp [outAt, hget]
    · simp [totAt, hget]
  · intro hn
    rw [hsum]
    apply outAt_of_not_mem_keys
    rw [r3]; exact AMap.get?_eq_none_iff.mp hn

/-! ## `migrate` from ≤ 0.13.0, entry by entry -/

/-- A successful `migrate` from a stored version ≤ 0.13.0 of a one-channel contract with distinct storage
keys: each entry `{outstanding, total_sent}` of the channel becomes
`{balance, total_sent + (balance − outstanding)}` where `balance ≥ outstanding` is the contract's real
balance of the denomination; keys of other channels are untouched. -/
theorem migrate_legacy_entry {s s' : State} {gas : Option Nat} {hold : Denom → Option Nat} {ch : String}
    (hnd : AMap.NodupKeys s.chan) (hv : Version.le s.version MIGRATE_VERSION_3 = true) (hch : s.channels = [ch])
    (h : migrate s gas hold = .ok s') :
    (∀ d cs, s.chan.get? (ch, d) = some cs → ∃ bal, hold d = some bal ∧ cs.outstanding ≤ bal ∧
        s'.chan.get? (ch, d) = some ⟨bal, cs.totalSent + (bal - cs.outstanding)⟩) ∧
    (∀ k, (k ∉ AMap.keys s.chan ∨ k.1 ≠ ch) → s'.chan.get? k = s.chan.get? k) := by
  obtain ⟨_, hb⟩ := migrate_books h
  rcases hb with ⟨hv', _⟩ | ⟨_, s1, s2, e1, ec, hu, e⟩
  · rw [hv] at hv'; cases hv'
  · obtain ⟨r1, r2, _, _⟩ := updateBalances_full (ch := ch) (by rw [ec, hch]) (by rw [e1]; exact hnd) hu
    rw [e1] at r1 r2
    rw [e]
    exact ⟨r1, r2⟩

/-- `reduce_channel_balance` cannot fail for an amount up to the stored outstanding balance. -/
theorem reduceBalance_ok_of_le {m : ChanMap} {c : String} {d : Denom} {cs : ChanState} {amt : Nat}
    (hg : m.get? (c, d) = some cs) (hle : amt ≤ cs.outstanding) :
    reduceBalance m c d amt = .ok (m.set (c, d) ⟨cs.outstanding - amt, cs.totalSent⟩) := by
  simp [reduceBalance, hg, subU128, hle, bind, Except.bind, pure, Except.pure]

/-- An incoming packet with well-formed fields, an amount up to the stored outstanding balance of its
denomination on the receiving channel, and a payable token is accepted by `do_ibc_packet_receive`. -/
theorem doReceive_ok_of_entry {s : State} {p : PacketIn} {tv : Bool} {d : Denom} {cs : ChanState} {amt : Nat}
    {gas : Option Nat} (hg : s.chan.get? (p.destChan, d) = some cs) (hamt : p.amount = some amt)
    (hvch : p.voucher = some (p.srcPort, p.srcChan, d)) (hle : amt ≤ cs.outstanding)
    (hgas : checkGasLimit s d tv = .ok gas) :
    doReceive s p tv =
      .ok ({ s with chan := s.chan.set (p.destChan, d) ⟨cs.outstanding - amt, cs.totalSent⟩,
                    replyArgs := some ⟨p.destChan, d, amt⟩ }, ⟨p.receiver, amt, d, gas, RECEIVE_ID⟩) := by
  unfold doReceive
  simp [hamt, hvch, hgas, reduceBalance_ok_of_le hg hle, check, bind, Except.bind, pure, Except.pure]

/-- A failed send (error acknowledgement / timeout) of an amount up to the stored outstanding balance is
accepted by `on_packet_failure` when the token is payable. -/
theorem onPacketFailure_ok_of_entry {s : State} {chan : String} {pk : Packet} {tv : Bool} {cs : ChanState}
    {gas : Option Nat} (hg : s.chan.get? (chan, pk.denom) = some cs) (hle : pk.amount ≤ cs.outstanding)
    (hgas : checkGasLimit s pk.denom tv = .ok gas) :
    onPacketFailure s chan (some pk) tv =
      .ok ({ s with chan := s.chan.set (chan, pk.denom) ⟨cs.outstanding - pk.amount, cs.totalSent⟩ },
           ⟨pk.sender, pk.amount, pk.denom, gas, ACK_FAILURE_ID⟩) := by
  unfold onPacketFailure
  simp [hgas, reduceBalance_ok_of_le hg hle, bind, Except.bind, pure, Except.pure]

theorem holdings_eq_of_frame {w w' : World} (e2 : w'.bank = w.bank) (e3 : w'.tok = w.tok) (e4 : w'.self = w.self)
    (e5 : w'.tokens = w.tokens) (d : Denom) : w'.holdings d = w.holdings d := by
  cases d <;> simp [World.holdings, World.bankBal, World.tokBal, e2, e3, e4, e5]

/-! ## Liveness: a legacy contract can be migrated -/

/-- The reconciliation loop succeeds when every entry of the channel is under-booked and the reconciled
values fit `Uint128`. -/
theorem updateDenoms_ok (ch : String) (hold : Denom → Option Nat) (es : List (Key × ChanState))
    (h : ∀ e ∈ es, e.1.1 = ch → ∃ bal, hold e.1.2 = some bal ∧ e.2.outstanding ≤ bal ∧ bal ≤ U128_MAX ∧
      e.2.totalSent + (bal - e.2.outstanding) ≤ U128_MAX) (m : ChanMap) :
    ∃ m', updateDenoms ch hold es m = .ok m' := by
  induction es generalizing m with
  | nil => exact ⟨m, rfl⟩
  | cons e rest ih =>
    obtain ⟨⟨c, d⟩, cs⟩ := e
    have ih' := ih (fun e he => h e (List.mem_cons_of_mem _ he))
    unfold updateDenoms
    by_cases hc : c = ch
    · obtain ⟨bal, hb, hle, hfit, htot⟩ := h ((c, d), cs) (by simp) hc
      simp only [hc, if_true, hb]
      have hsub : subU128 bal cs.outstanding = .ok (bal - cs.outstanding) := by simp [subU128, hle]
      simp only [hsub, bind, Except.bind]
      by_cases hz : bal - cs.outstanding = 0
      · simp only [hz, if_true]; exact ih' m
      · have e1 : cs.outstanding + (bal - cs.outstanding) = bal := by omega
        have ha1 : addU128 cs.outstanding (bal - cs.outstanding) = .ok bal := by simp [addU128, e1, hfit]
        have ha2 : addU128 cs.totalSent (bal - cs.outstanding) = .ok (cs.totalSent + (bal - cs.outstanding)) := by
          simp [addU128, htot]
        simp only [hz, if_false, ha1, ha2]
        exact ih' _
    · simp only [hc, if_false]; exact ih' m

theorem not_newer_of_le_v3 {v : Version} (h : Version.le v MIGRATE_VERSION_3 = true) :
    Version.lt CONTRACT_VERSION v = false := by
  have hm : v.major = 0 := by
    unfold Version.le Version.lt MIGRATE_VERSION_3 at h
    by_cases h0 : (0 : Nat) = v.major
    · exact h0.symm
    · simp [h0] at h; omega
  unfold Version.lt CONTRACT_VERSION
  simp [hm]

/-- **A legacy contract can be migrated**: stored by this contract at a version in `[0.11.1, 0.13.0]`, with
the storage layout of that version (`gov_contract` inside the config iff ≤ 0.12.0-alpha1), at most one
channel, and every entry of that channel under-booked with reconciled values that fit `Uint128` (real
balances are `Uint128`; `total_sent + in-flight` fits unless ~2^128 tokens were ever sent): `migrate`
succeeds. -/
theorem migrate_ok_of_legacy {s : State} {gas : Option Nat} {hold : Denom → Option Nat}
    (hname : s.versionName = CONTRACT_NAME) (hmin : Version.lt s.version MIGRATE_MIN_VERSION = false)
    (hv3 : Version.le s.version MIGRATE_VERSION_3 = true)
    (hlayout : if Version.le s.version MIGRATE_VERSION_2 = true then s.v1gov.isSome = true else s.v1gov = none)
    (hone : s.channels.length ≤ 1)
    (hent : ∀ e ∈ s.chan, ∃ bal, hold e.1.2 = some bal ∧ e.2.outstanding ≤ bal ∧ bal ≤ U128_MAX ∧
      e.2.totalSent + (bal - e.2.outstanding) ≤ U128_MAX) :
    ∃ s', migrate s gas hold = .ok s' := by
  have hnew := not_newer_of_le_v3 hv3
  have hub : ∀ s1 : State, s1.v1gov = none → s1.chan = s.chan → s1.channels = s.channels →
      ∃ s2, updateBalances s1 hold = .ok s2 ∧ s2.v1gov = none := by
    intro s1 hg1 hc1 hch1
    cases hch : s1.channels with
    | nil => exact ⟨s1, by simp [updateBalances, hch], hg1⟩
    | cons ch rest =>
      have hrest : rest = [] := by
        rw [hch1] at hch; rw [hch] at hone; simpa using hone
      subst hrest
      obtain ⟨m, hm⟩ := updateDenoms_ok ch hold s1.chan (fun e he _ => hent e (by rw [← hc1]; exact he)) s1.chan
      exact ⟨{ s1 with chan := m }, by simp [updateBalances, hch, hm, bind, Except.bind, pure, Except.pure], hg1⟩
  have hck1 : check (s.versionName == CONTRACT_NAME) "cannotmigrate.name" = .ok () := by simp [check, hname]
  have hck2 : check (!(Version.lt CONTRACT_VERSION s.version)) "cannotmigrate.newer" = .ok () := by simp [check, hnew]
  have hck3 : check (!(Version.lt s.version MIGRATE_MIN_VERSION)) "cannotmigrate.old" = .ok () := by simp [check, hmin]
  have fin : ∀ s2 : State, s2.v1gov = none → ∃ s', (do
      let s3 ← (match gas with
        | some g => do
          let cfg ← loadConfig s2
          pure { s2 with config := ⟨cfg.defaultTimeout, some g⟩ }
        | none => pure s2 : Res State)
      pure (if Version.lt s.version CONTRACT_VERSION then { s3 with version := CONTRACT_VERSION } else s3) : Res State) = .ok s' := by
    intro s2 hg2
    have hcfg : loadConfig s2 = .ok s2.config := by simp [loadConfig, hg2]
    cases gas with
    | none => exact ⟨_, rfl⟩
    | some g => simp only [hcfg, bind, Except.bind]; exact ⟨_, rfl⟩
  unfold migrate
  simp only [hck1, hck2, hck3, hv3, if_true, bind, Except.bind]
  split at hlayout
  · rename_i hv2
    obtain ⟨g, hg⟩ := Option.isSome_iff_exists.mp hlayout
    obtain ⟨s2, h2, hg2⟩ := hub { s with admin := some g, config := ⟨s.config.defaultTimeout, none⟩, v1gov := none } rfl rfl rfl
    simp only [hv2, if_true, hg, pure, Except.pure, h2]
    exact fin s2 hg2
  · rename_i hv2
    obtain ⟨s2, h2, hg2⟩ := hub s hlayout rfl rfl
    simp only [hv2, Bool.false_eq_true, if_false, pure, Except.pure, h2]
    exact fin s2 hg2

end CwPlus.Ics20
