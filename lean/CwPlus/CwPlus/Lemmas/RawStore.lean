import CwPlus.Base.RawStore
/-!
# Lemmas about the byte-level key layout (`Base/RawStore.lean`)

Injectivity of every ingredient of a storage key (UTF-8 bytes of a string, 2-byte length, 8-byte height,
length-prefixed components: a prefix-free code), reading a store section by section, and the round trip of
the decimal rendering.  The statements of C09's raw-key clause are in `Props/C09Raw.lean`.  Core only.
-/
namespace CwPlus.RawStore

/-! ## Strings, lengths, heights -/

theorem strBytes_inj {a b : String} (h : strBytes a = strBytes b) : a = b := by
  unfold strBytes at h
  have h1 := (List.map_inj_right (fun x y h => UInt8.toNat_inj.mp h)).mp h
  have h2 : a.toUTF8.data = b.toUTF8.data := Array.toList_inj.mp h1
  have h3 : a.toUTF8 = b.toUTF8 := by
    cases ha : a.toUTF8; cases hb : b.toUTF8; simp_all
  exact String.toByteArray_inj.mp h3

theorem strBytes_lt (s : String) : ∀ b ∈ strBytes s, b < 256 := by
  intro b hb
  unfold strBytes at hb
  simp at hb
  obtain ⟨x, _, rfl⟩ := hb
  exact x.toNat_lt

theorem len2_inj {a b : Nat} (ha : a ≤ 0xFFFF) (hb : b ≤ 0xFFFF) (h : len2 a = len2 b) : a = b := by
  simp [len2] at h
  omega

theorem len2_length (n : Nat) : (len2 n).length = 2 := rfl

theorem be8_length (n : Nat) : (be8 n).length = 8 := rfl

theorem be8_inj {a b : Nat} (ha : a < 2 ^ 64) (hb : b < 2 ^ 64) (h : be8 a = be8 b) : a = b := by
  simp [be8] at h
  omega

theorem be8_lt (n : Nat) : ∀ b ∈ be8 n, b < 256 := by
  intro b hb
  simp [be8] at hb
  omega

/-! ## Length-prefixed components are a prefix-free code -/

/-- Two length-prefixed components followed by anything: equal texts have equal components and equal rests. -/
theorem lp_append_inj {a b x y : Bytes} (ha : a.length ≤ 0xFFFF) (hb : b.length ≤ 0xFFFF)
    (h : lp a ++ x = lp b ++ y) : a = b ∧ x = y := by
  unfold lp at h
  rw [List.append_assoc, List.append_assoc] at h
  have h1 := List.append_inj h (by simp [len2_length])
  have hl : a.length = b.length := len2_inj ha hb h1.1
  exact List.append_inj h1.2 hl

/-- The same for any number of components, when both sides have the same number of them. -/
theorem flatMap_lp_append_inj : ∀ {ps qs : List Bytes} {x y : Bytes}, ps.length = qs.length →
    (∀ p ∈ ps, p.length ≤ 0xFFFF) → (∀ q ∈ qs, q.length ≤ 0xFFFF) →
    ps.flatMap lp ++ x = qs.flatMap lp ++ y → ps = qs ∧ x = y
  | [], [], _, _, _, _, _, h => ⟨rfl, by simpa using h⟩
  | [], _ :: _, _, _, hl, _, _, _ => by simp at hl
  | _ :: _, [], _, _, hl, _, _, _ => by simp at hl
  | p :: ps, q :: qs, x, y, hl, hp, hq, h => by
    simp only [List.flatMap_cons, List.append_assoc] at h
    obtain ⟨rfl, h'⟩ := lp_append_inj (hp p (by simp)) (hq q (by simp)) h
    obtain ⟨rfl, rfl⟩ := flatMap_lp_append_inj (by simpa using hl)
      (fun p' hp' => hp p' (by simp [hp'])) (fun q' hq' => hq q' (by simp [hq'])) h'
    exact ⟨rfl, rfl⟩

theorem mapKey_eq (ns : Bytes) (parts : List Bytes) (last : Bytes) :
    mapKey ns parts last = lp ns ++ nsKey parts last := by
  simp [mapKey, nsKey]

/-- The first two bytes of a map key are the length of its namespace. -/
theorem mapKey_cons (ns : Bytes) (parts : List Bytes) (last : Bytes) :
    mapKey ns parts last = (ns.length / 256 % 256) :: (ns.length % 256) :: (ns ++ nsKey parts last) := by
  simp [mapKey_eq, lp, len2]

/-- Keys of different map namespaces never coincide, whatever the key parts are. -/
theorem mapKey_ns_inj {ns ns' : Bytes} {ps qs : List Bytes} {k k' : Bytes} (h1 : ns.length ≤ 0xFFFF)
    (h2 : ns'.length ≤ 0xFFFF) (h : mapKey ns ps k = mapKey ns' qs k') : ns = ns' ∧ nsKey ps k = nsKey qs k' := by
  rw [mapKey_eq, mapKey_eq] at h
  exact lp_append_inj h1 h2 h

/-! ## Reading a store -/

theorem get?_append (a b : Store) (k : Bytes) : get? (a ++ b) k = (get? a k).or (get? b k) := by
  induction a with
  | nil => simp [get?]
  | cons e rest ih =>
    obtain ⟨k', v⟩ := e
    by_cases h : k' = k <;> simp [get?, h, ih]

theorem get?_eq_none {st : Store} {k : Bytes} (h : ∀ e ∈ st, e.1 ≠ k) : get? st k = none := by
  induction st with
  | nil => rfl
  | cons e rest ih =>
    obtain ⟨k', v⟩ := e
    have : k' ≠ k := h (k', v) (by simp)
    simp [get?, this]
    exact ih (fun e he => h e (by simp [he]))

theorem get?_eq_none_iff {st : Store} {k : Bytes} : get? st k = none ↔ k ∉ keys st := by
  induction st with
  | nil => simp [get?, keys]
  | cons e rest ih =>
    obtain ⟨k', v⟩ := e
    by_cases h : k' = k
    · simp [get?, keys, h]
    · simp [get?, h, keys] at ih ⊢
      constructor
      · intro hn; exact ⟨fun e => h e.symm, ih.mp hn⟩
      · intro hn; exact ih.mpr hn.2

/-- A section built from an association list through an injective key function reads like the list. -/
theorem get?_map_inj {κ ν : Type} [DecidableEq κ] (f : κ → Bytes) (g : ν → Val)
    (hf : ∀ a b, f a = f b → a = b) (m : AMap κ ν) (a : κ) :
    get? (m.map fun p => (f p.1, g p.2)) (f a) = (AMap.get? m a).map g := by
  induction m with
  | nil => rfl
  | cons p rest ih =>
    obtain ⟨k, v⟩ := p
    by_cases h : k = a
    · subst h; simp [get?, AMap.get?]
    · have : f k ≠ f a := fun e => h (hf _ _ e)
      simp [get?, AMap.get?, h, this, ih]

/-! ## Decimal digits -/

theorem parseAcc_append (xs : Bytes) (d acc : Nat) :
    parseAcc (xs ++ [d]) acc = (parseAcc xs acc).bind fun a => if 48 ≤ d ∧ d ≤ 57 then some (a * 10 + (d - 48)) else none := by
  induction xs generalizing acc with
  | nil => simp [parseAcc]
  | cons x xs ih =>
    simp only [List.cons_append, parseAcc]
    split
    · exact ih _
    · rfl

theorem div10_lt {n f : Nat} (h : n < 10 ^ (f + 2)) : n / 10 < 10 ^ (f + 1) := by
  apply Nat.div_lt_of_lt_mul
  rw [Nat.pow_succ] at h
  omega

/-- With enough fuel the result does not depend on the fuel. -/
theorem digitsAux_fuel : ∀ (f g n : Nat), n < 10 ^ (f + 1) → n < 10 ^ (g + 1) → digitsAux f n = digitsAux g n
  | 0, 0, _, _, _ => rfl
  | 0, g + 1, n, h, _ => by
    have : n < 10 := by simpa using h
    simp [digitsAux, this]
  | f + 1, 0, n, _, h => by
    have : n < 10 := by simpa using h
    simp [digitsAux, this]
  | f + 1, g + 1, n, hf, hg => by
    simp only [digitsAux]
    split
    · rfl
    · rw [digitsAux_fuel f g (n / 10) (div10_lt hf) (div10_lt hg)]

theorem lt_ten_pow_succ (n : Nat) : n < 10 ^ (n + 1) :=
  Nat.lt_trans (Nat.lt_pow_self (by decide : 1 < 10)) (Nat.pow_lt_pow_right (by decide) (Nat.lt_succ_self n))

/-- The defining equation of the decimal rendering. -/
theorem natDigits_unfold (n : Nat) :
    natDigits n = if n < 10 then [48 + n] else natDigits (n / 10) ++ [48 + n % 10] := by
  unfold natDigits
  cases n with
  | zero => rfl
  | succ m =>
    simp only [digitsAux]
    split
    · rfl
    · rename_i h
      rw [digitsAux_fuel m ((m + 1) / 10) ((m + 1) / 10) (div10_lt (lt_ten_pow_succ (m + 1))) (lt_ten_pow_succ _)]

theorem parseAcc_natDigits (n : Nat) : parseAcc (natDigits n) 0 = some n := by
  induction n using Nat.strongRecOn with
  | _ n ih =>
    rw [natDigits_unfold]
    split
    · rename_i h
      simp [parseAcc]
      omega
    · rename_i h
      rw [parseAcc_append, ih (n / 10) (by omega)]
      simp
      omega

theorem natDigits_ne_nil (n : Nat) : natDigits n ≠ [] := by
  rw [natDigits_unfold]
  split <;> simp

/-- Round trip of the decimal rendering. -/
theorem parseNat_natDigits (n : Nat) : parseNat (natDigits n) = some n := by
  simp [parseNat, natDigits_ne_nil, parseAcc_natDigits]

theorem natDigits_inj {a b : Nat} (h : natDigits a = natDigits b) : a = b := by
  have := parseNat_natDigits a
  rw [h, parseNat_natDigits] at this
  exact (Option.some.inj this).symm

theorem natDigits_lt (n : Nat) : ∀ b ∈ natDigits n, 48 ≤ b ∧ b ≤ 57 := by
  induction n using Nat.strongRecOn with
  | _ n ih =>
    rw [natDigits_unfold]
    split
    · intro b hb; simp at hb; omega
    · intro b hb
      simp at hb
      rcases hb with hb | hb
      · exact ih (n / 10) (by omega) b hb
      · omega

end CwPlus.RawStore
