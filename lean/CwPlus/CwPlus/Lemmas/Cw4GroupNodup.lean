import CwPlus.Model.Cw4Group
import CwPlus.Lemmas.Cw4Group
/-!
# cw4-group: the current view of `MEMBERS` never holds a key twice

`AMap.NodupKeys s.members.cur` is established by `instantiate` (`create` on the empty storage) and
preserved by every handler, hence by every history (`run_nodup`).  It is the hypothesis of the
`ListMembers` completeness theorem of C20 (`Props/C20Listings.lean`).  Core only.
-/
namespace CwPlus.Snapshot.SnapMap
open CwPlus
variable {κ ν : Type} [DecidableEq κ]

/-- `save` / `remove` on a snapshot map keep the keys of the current view distinct. -/
theorem nodup_write {m : SnapMap κ ν} (k : κ) (h : Nat) (new : Option ν) (hm : AMap.NodupKeys m.cur) :
    AMap.NodupKeys (m.write k h new).cur := by
  cases new with
  | none => exact AMap.nodup_erase hm
  | some v => exact AMap.nodup_set hm

omit [DecidableEq κ] in
theorem nodup_empty : AMap.NodupKeys (({} : SnapMap κ ν).cur) := by
  simp [AMap.NodupKeys, AMap.keys]

end CwPlus.Snapshot.SnapMap

namespace CwPlus.Cw4Group
open CwPlus CwPlus.Snapshot

theorem createMembers_nodup (h : Nat) (l : List (AddrArg × Nat)) (m : SnapMap Addr Nat) (t : Nat)
    {m' : SnapMap Addr Nat} {t' : Nat} (hc : createMembers h l m t = .ok (m', t')) (hm : AMap.NodupKeys m.cur) :
    AMap.NodupKeys m'.cur := by
  induction l generalizing m t with
  | nil => simp [createMembers] at hc; obtain ⟨rfl, rfl⟩ := hc; exact hm
  | cons p rest ih =>
    obtain ⟨a, w⟩ := p
    simp [createMembers] at hc
    obtain ⟨_, _, hc⟩ := hc
    exact ih _ _ hc (SnapMap.nodup_write _ _ _ hm)

/-- `create` on any storage whose members are distinct. -/
theorem create_nodup {s s' : State} {msg : InstMsg} {h : Nat} (hc : create s msg h = .ok s')
    (hs : AMap.NodupKeys s.members.cur) : AMap.NodupKeys s'.members.cur := by
  simp [create] at hc
  obtain ⟨_, adm, _, m, total, hcm, rfl⟩ := hc
  exact createMembers_nodup _ _ _ _ hcm hs

/-- Every accepted instantiation establishes the invariant. -/
theorem instantiate_nodup {msg : InstMsg} {h : Nat} {s : State} (hi : instantiate msg h = .ok s) :
    AMap.NodupKeys s.members.cur :=
  create_nodup hi SnapMap.nodup_empty

theorem applyAdds_nodup (h : Nat) (l : List (AddrArg × Nat)) (m : SnapMap Addr Nat) (t : Nat)
    {r : SnapMap Addr Nat × Nat × List Diff} (hc : applyAdds h l m t = .ok r) (hm : AMap.NodupKeys m.cur) :
    AMap.NodupKeys r.1.cur := by
  induction l generalizing m t r with
  | nil => simp [applyAdds] at hc; subst hc; exact hm
  | cons p rest ih =>
    obtain ⟨a, w⟩ := p
    simp [applyAdds] at hc
    obtain ⟨_, _, _, r', t', d, hr, rfl⟩ := hc
    exact ih _ _ (r := (r', t', d)) hr (SnapMap.nodup_write _ _ _ hm)

theorem applyRemoves_nodup (h : Nat) (l : List AddrArg) (m : SnapMap Addr Nat) (t : Nat)
    {r : SnapMap Addr Nat × Nat × List Diff} (hc : applyRemoves h l m t = .ok r) (hm : AMap.NodupKeys m.cur) :
    AMap.NodupKeys r.1.cur := by
  induction l generalizing m t r with
  | nil => simp [applyRemoves] at hc; subst hc; exact hm
  | cons a rest ih =>
    simp only [applyRemoves, check_bind_ok] at hc
    obtain ⟨_, hc⟩ := hc
    split at hc
    · exact ih _ _ hc hm
    · simp at hc
      obtain ⟨_, r', t', d, hr, rfl⟩ := hc
      exact ih _ _ (r := (r', t', d)) hr (SnapMap.nodup_write _ _ _ hm)

theorem updateMembers_nodup {s : State} {h : Nat} {snd : Addr} {remove : List AddrArg} {add : List (AddrArg × Nat)}
    {r : State × List Diff} (hc : updateMembers s h snd remove add = .ok r) (hs : AMap.NodupKeys s.members.cur) :
    AMap.NodupKeys r.1.members.cur := by
  simp only [updateMembers, check_bind_ok] at hc
  obtain ⟨_, _, hc⟩ := hc
  split at hc
  · simp at hc
  · simp only [Res.bind_ok] at hc
    obtain ⟨r1, h1, r2, h2, hp⟩ := hc
    simp only [pure, Except.pure, Except.ok.injEq] at hp
    subst hp
    exact applyRemoves_nodup _ _ _ _ h2 (applyAdds_nodup _ _ _ _ h1 hs)

/-- Every successful call of every message kind preserves the invariant. -/
theorem execute_nodup {s s' : State} {h : Nat} {snd : Addr} {msg : Msg} {out : List Out}
    (hs : AMap.NodupKeys s.members.cur) (hc : execute s h snd msg = .ok (s', out)) :
    AMap.NodupKeys s'.members.cur := by
  cases msg <;> simp only [execute] at hc
  case updateAdmin new =>
    simp [execUpdateAdmin] at hc
    obtain ⟨adm, _, _, rfl, _⟩ := hc
    exact hs
  case updateMembers remove add =>
    simp only [execUpdateMembers, Res.bind_ok] at hc
    obtain ⟨r, hr, hp⟩ := hc
    simp only [pure, Except.pure, Except.ok.injEq, Prod.mk.injEq] at hp
    obtain ⟨rfl, _⟩ := hp
    exact updateMembers_nodup hr hs
  case addHook a =>
    simp [execAddHook] at hc
    obtain ⟨_, _, _, rfl, _⟩ := hc
    exact hs
  case removeHook a =>
    simp [execRemoveHook] at hc
    obtain ⟨_, _, _, rfl, _⟩ := hc
    exact hs

theorem step_nodup {s : State} (h : Nat) (snd : Addr) (msg : Msg) (hs : AMap.NodupKeys s.members.cur) :
    AMap.NodupKeys (step s h snd msg).members.cur := by
  unfold step
  split
  · rename_i s' out hc; exact execute_nodup hs hc
  · exact hs

/-- Every history preserves the invariant. -/
theorem run_nodup (ops : List Op) {s : State} (hs : AMap.NodupKeys s.members.cur) :
    AMap.NodupKeys (run s ops).members.cur := by
  induction ops generalizing s with
  | nil => exact hs
  | cons op rest ih => exact ih (step_nodup _ _ _ hs)

end CwPlus.Cw4Group
