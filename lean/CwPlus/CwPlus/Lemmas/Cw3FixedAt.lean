import CwPlus.Lemmas.Cw3Fixed
import CwPlus.Lemmas.Cw3Status
/-!
# cw3-fixed: further histories with non-decreasing blocks, block-indexed invariants

* `execute_coreStep` — every successful handler call is one `CoreStep`,
* `premise_of_inv` — inside `Inv` the tally of every proposal meets the premise of C04,
* `ReachableFrom fuel w0 b1 w b` — `w` is reached from `w0` by a further history whose blocks start at or
  after `b1` and never go back; `b` is the block of its last operation (`b1` for the empty history),
* `reachableFrom_inv` — a block-indexed state predicate that is monotone in the block and preserved by
  every handler call holds along such a history.
-/
namespace CwPlus.Cw3Fixed
open CwPlus CwPlus.Cw3 CwPlus.Cw3Core CwPlus.Props

theorem execute_coreStep {s s' : State} {blk : Block} {snd : Addr} {m : ExecMsg} {out : List Msg}
    (h : execute s blk snd m = .ok (s', out)) : CoreStep blk s.core s'.core := by
  obtain ⟨_, _, hc⟩ := execute_cases h
  rcases hc with ⟨t, d, msgs, latest, w, id, _, _, _, hp⟩ | ⟨id, v, _, _, hv⟩ | ⟨id, _, he⟩ | ⟨id, _, _, hcl⟩
  · exact CoreStep.propose _ _ _ _ _ _ _ _ _ _ _ hp
  · exact CoreStep.vote _ _ _ _ hv
  · exact CoreStep.execute _ _ _ he
  · exact CoreStep.close _ hcl

/-- Inside the invariant every proposal's tally meets the premise of the threshold arithmetic (C04):
tally ≤ total (C06), total in `u64`, threshold validated for this total. -/
theorem premise_of_inv {s : State} (hi : Inv s) {id : Nat} {p : Proposal} (hp : s.core.proposals.get? id = some p) :
    C04.Premise (openT p) := by
  obtain ⟨h1, h2, _⟩ := hi.propCfg id p hp
  refine ⟨?_, ?_, ?_⟩
  · have := hi.tally_le hp
    simpa [openT, C04.cast] using this
  · show p.totalWeight ≤ U64_MAX
    rw [h1]; exact hi.totalU64
  · show p.threshold.validate p.totalWeight = .ok ()
    rw [h1, h2]; exact hi.thrValid

theorem blockLe_refl (b : Block) : blockLe b b := ⟨Nat.le_refl _, Nat.le_refl _⟩
theorem blockLe_trans {a b c : Block} (h1 : blockLe a b) (h2 : blockLe b c) : blockLe a c :=
  ⟨Nat.le_trans h1.1 h2.1, Nat.le_trans h1.2 h2.2⟩

/-- `w` is reached from `w0` by a further history whose first block is at or after `b1` and whose
blocks never go back; the last argument is the block of the last operation (`b1` if there is none). -/
inductive ReachableFrom (fuel : Nat) (w0 : World) (b1 : Block) : World → Block → Prop
  | refl : ReachableFrom fuel w0 b1 w0 b1
  | step {w : World} {b : Block} (op : Op) : ReachableFrom fuel w0 b1 w b → blockLe b op.blk →
      ReachableFrom fuel w0 b1 (step fuel w op) op.blk

theorem ReachableFrom.le {fuel : Nat} {w0 w : World} {b1 b : Block} (h : ReachableFrom fuel w0 b1 w b) : blockLe b1 b := by
  induction h with
  | refl => exact blockLe_refl _
  | step op _ hb ih => exact blockLe_trans ih hb

/-- a further history of a reachable world leads to a reachable world -/
theorem ReachableAt.extend {fuel : Nat} {w0 w : World} {b0 b1 b : Block} (hr : ReachableAt fuel w0 b0)
    (h01 : blockLe b0 b1) (hf : ReachableFrom fuel w0 b1 w b) : ReachableAt fuel w b ∨ (w = w0 ∧ b = b1) := by
  induction hf with
  | refl => exact Or.inr ⟨rfl, rfl⟩
  | @step w b op _ hb ih =>
    left
    rcases ih with h | ⟨rfl, rfl⟩
    · exact ReachableAt.step op h hb
    · exact ReachableAt.step op hr (blockLe_trans h01 hb)

theorem ReachableAt.extend_reachable {fuel : Nat} {w0 w : World} {b0 b1 b : Block} (hr : ReachableAt fuel w0 b0)
    (h01 : blockLe b0 b1) (hf : ReachableFrom fuel w0 b1 w b) : Reachable fuel w := by
  rcases ReachableAt.extend hr h01 hf with h | ⟨rfl, _⟩
  · exact h.reachable
  · exact hr.reachable

/-- A block-indexed state predicate that is monotone in the block and preserved by every successful
handler call (at that block) holds along every further history with non-decreasing blocks. -/
theorem reachableFrom_inv (P : Block → State → Prop)
    (hmono : ∀ b b2 s, blockLe b b2 → P b s → P b2 s)
    (hstep : ∀ b s snd m s' out, P b s → execute s b snd m = .ok (s', out) → P b s')
    {fuel : Nat} {w0 w : World} {b1 b : Block} (h0 : P b1 w0.ms) (hf : ReachableFrom fuel w0 b1 w b) : P b w.ms := by
  induction hf with
  | refl => exact h0
  | @step w b op _ hb ih =>
    have ih' := hmono _ _ _ hb ih
    rcases step_ms_cases fuel w op with e | ⟨snd, m, w', _, htx, e⟩
    · rw [e]; exact ih'
    · rw [e]; exact tx_state_inv (P op.blk) op.blk (fun s snd m s' out hq h => hstep op.blk s snd m s' out hq h) ih' htx

/-- … and along every history with non-decreasing blocks from an accepted instantiation. -/
theorem reachableAt_inv (P : Block → State → Prop)
    (hmono : ∀ b b2 s, blockLe b b2 → P b s → P b2 s)
    (hstep : ∀ b s snd m s' out, P b s → execute s b snd m = .ok (s', out) → P b s')
    (hinit : ∀ m s b, instantiate m = .ok s → P b s)
    {fuel : Nat} {w : World} {b : Block} (h : ReachableAt fuel w b) : P b w.ms := by
  induction h with
  | init self bank sink b hi => exact hinit _ _ b hi
  | @step w b op _ hb ih =>
    have ih' := hmono _ _ _ hb ih
    rcases step_ms_cases fuel w op with e | ⟨snd, m, w', _, htx, e⟩
    · rw [e]; exact ih'
    · rw [e]; exact tx_state_inv (P op.blk) op.blk (fun s snd m s' out hq h => hstep op.blk s snd m s' out hq h) ih' htx

theorem instantiate_core {m : InstMsg} {s : State} (h : instantiate m = .ok s) : s.core = Core.empty := by
  simp [instantiate] at h
  obtain ⟨_, _, _, _, _, _, rfl⟩ := h
  rfl

/-- In every reachable state (any history, blocks in any order) a proposal stored Open and not expired at a
block is reported Open at that block. -/
theorem reachable_openOk {fuel : Nat} {w : World} (hr : Reachable fuel w) :
    AllP (fun _ p => ∀ b, OpenOk b p) w.ms.core := by
  obtain ⟨m, s, self, bank, sink, ops, hi, rfl⟩ := hr
  have := run_state_inv (fun s => Inv s ∧ AllP (fun _ p => ∀ b, OpenOk b p) s.core)
    (fun blk s snd m s' out ⟨hi, ha⟩ he =>
      ⟨execute_inv hi he, allP_step hi.wf (fun _ _ _ hold hs => openOk_all_step hold hs) ha (execute_coreStep he)⟩)
    fuel ops (World.init s self bank sink) ⟨instantiate_inv hi, by
      show AllP _ s.core
      rw [instantiate_core hi]; exact allP_empty _⟩
  exact this.2

/-- a further history of a reachable world leads to a reachable world -/
theorem Reachable.extend {fuel : Nat} {w0 w : World} {b1 b : Block} (hr : Reachable fuel w0)
    (hf : ReachableFrom fuel w0 b1 w b) : Reachable fuel w := by
  induction hf with
  | refl => exact hr
  | @step w b op _ _ ih =>
    obtain ⟨m, s, self, bank, sink, ops, hi, rfl⟩ := ih
    exact ⟨m, s, self, bank, sink, ops ++ [op], hi, by simp [run, List.foldl_append]⟩

end CwPlus.Cw3Fixed
