import CwPlus.Lemmas.Cw3Core
import CwPlus.Lemmas.Cw3Arith
import CwPlus.Lemmas.Cw3Flex
/-!
# cw3: a stored proposal whose tally fits `u64` has a status at every block

`current_status` can fail (the `u64` subtractions / additions of `is_passed`, `is_rejected`).  The handlers evaluate
it on the record they are about to store, at their own block, and store the result; this file shows that a record
stored that way has a status at *every* block, provided the four tally counters together fit `u64`
(`cs_stable`).  The proviso is needed for one case only: a `ThresholdQuorum` proposal without Yes weight whose
`Votes::total()` overflows is evaluated without the total while it is not expired and with it once it is.

`StatusInv` (every stored proposal whose tally fits has a status at every block) is an invariant of the four core
operations and hence of every reachable cw3-flex world (`Cw3Flex.reachable_statusInv`), whatever the group did —
the recorded total weight need not bound the tally (D3).  Used by `Props/C20Listings.lean` (the proposal listings
fail as a whole when one listed proposal has no status).  Core only.
-/
namespace CwPlus.Cw3
open CwPlus

/-- The decision depends on the block only through "has the proposal expired". -/
theorem cs_congr_expired {t : Tally} {b b' : Block} (h : t.expires.isExpired b = t.expires.isExpired b') :
    currentStatus t b = currentStatus t b' := by
  have h1 : isPassed t b = isPassed t b' := by simp only [isPassed, h]
  have h2 : isRejected t b = isRejected t b' := by simp only [isRejected, h]
  simp only [currentStatus, h, h1, h2]

theorem total_ok_of_fits {v : Votes} (h : v.yes + v.no + v.abstain + v.veto ≤ U64_MAX) :
    v.total = .ok (v.yes + v.no + v.abstain + v.veto) := by
  simp [Votes.total, addU64, bind, Except.bind]
  have h1 : v.yes + v.no ≤ U64_MAX := by omega
  have h2 : v.yes + v.no + v.abstain ≤ U64_MAX := by omega
  simp [h1, h2, h]

/-- From `is_passed` / `is_rejected` having values, `current_status` has one. -/
theorem cs_ok_of_parts {t : Tally} {blk : Block} (hp : ∃ b, isPassed t blk = .ok b) (hr : ∃ r, isRejected t blk = .ok r) :
    ∃ st, currentStatus t blk = .ok st := by
  obtain ⟨b, hb⟩ := hp
  obtain ⟨r, hr⟩ := hr
  unfold currentStatus
  by_cases hs : t.status ≠ .open
  · rw [if_pos hs]; exact ⟨_, rfl⟩
  · rw [if_neg hs, hb, ok_bind]
    cases b with
    | true => exact ⟨_, rfl⟩
    | false =>
      rw [hr]
      simp only [Bool.false_eq_true, if_false, ok_bind]
      split <;> exact ⟨_, rfl⟩

/-- A record stored Open that was evaluated Open at some block (so: not expired there, `is_passed` and `is_rejected`
both returned `false`) has a status at every block, if its tally fits `u64`. -/
theorem cs_open_everywhere {t : Tally} {blk : Block} (hp : isPassed t blk = .ok false) {rej : Bool}
    (hr : isRejected t blk = .ok rej) (hexp : t.expires.isExpired blk = false)
    (hfit : t.votes.yes + t.votes.no + t.votes.abstain + t.votes.veto ≤ U64_MAX) (blk' : Block) :
    ∃ st, currentStatus t blk' = .ok st := by
  by_cases he : t.expires.isExpired blk' = false
  · refine cs_ok_of_parts ⟨false, ?_⟩ ⟨rej, ?_⟩
    · rw [← hp]; simp only [isPassed, he, hexp]
    · rw [← hr]; simp only [isRejected, he, hexp]
  · have he' : t.expires.isExpired blk' = true := by simpa using he
    cases hthr : t.threshold with
    | absoluteCount k =>
      refine cs_ok_of_parts ⟨false, ?_⟩ ⟨rej, ?_⟩
      · rw [← hp]; simp only [isPassed, hthr]
      · rw [← hr]; simp only [isRejected, hthr]
    | absolutePercentage a =>
      refine cs_ok_of_parts ⟨false, ?_⟩ ⟨rej, ?_⟩
      · rw [← hp]; simp only [isPassed, hthr]
      · rw [← hr]; simp only [isRejected, hthr]
    | thresholdQuorum thr q =>
      have htot := total_ok_of_fits hfit
      have hab : t.votes.abstain ≤ t.votes.yes + t.votes.no + t.votes.abstain + t.votes.veto := by omega
      -- the un-expired evaluation of `is_rejected` went through `1 - threshold`
      have ha : thr ≤ DEC_ONE := by
        unfold isRejected at hr
        rw [hthr] at hr
        simp only [hexp, Bool.false_eq_true, if_false, Res.bind_ok] at hr
        obtain ⟨_, _, c, hc, _⟩ := hr
        unfold oneMinus at hc
        split at hc
        · assumption
        · cases hc
      refine cs_ok_of_parts ?_ ?_
      · unfold isPassed; rw [hthr]
        by_cases h0 : t.votes.yes = 0
        · rw [if_pos h0]; exact ⟨_, rfl⟩
        · simp only [h0, if_false, htot]
          rw [ok_bind]
          split
          · exact ⟨_, rfl⟩
          · rw [subU64_bind_of_le hab]; exact ⟨_, rfl⟩
      · unfold isRejected; rw [hthr]
        simp only []
        rw [if_pos he', htot, ok_bind, subU64_bind_of_le hab, oneMinus_bind_of_le ha]
        exact ⟨_, rfl⟩

/-- **A record stored with the status `current_status` returned for it has a status at every block**, if its tally
fits `u64`. -/
theorem cs_stable {t : Tally} {blk : Block} {st : Status} (h : currentStatus t blk = .ok st)
    (hfit : t.votes.yes + t.votes.no + t.votes.abstain + t.votes.veto ≤ U64_MAX) (blk' : Block) :
    ∃ st', currentStatus { t with status := st } blk' = .ok st' := by
  by_cases ho : t.status = .open
  · rcases Cw3Core.cs_of_open ho h with ⟨_, rfl⟩ | ⟨hp, rej, hr, ⟨_, rfl⟩ | ⟨⟨_, hexp⟩, rfl⟩⟩
    · exact ⟨_, Cw3Core.cs_of_ne_open (by simp)⟩
    · exact ⟨_, Cw3Core.cs_of_ne_open (by simp)⟩
    · have e : ({ t with status := .open } : Tally) = t := by rw [← ho]
      rw [e]
      exact cs_open_everywhere hp hr hexp hfit blk'
  · have e : st = t.status := by
      rw [Cw3Core.cs_of_ne_open ho] at h; cases h; rfl
    subst e
    exact ⟨_, Cw3Core.cs_of_ne_open ho⟩

end CwPlus.Cw3

namespace CwPlus.Cw3Core
open CwPlus CwPlus.Cw3

/-- The four tally counters together fit `u64` (so `Votes::total()` does not overflow). -/
def Proposal.Fits (p : Proposal) : Prop := p.votes.yes + p.votes.no + p.votes.abstain + p.votes.veto ≤ U64_MAX

/-- Every stored proposal whose tally fits `u64` has a status at every block. -/
def StatusInv (c : Core) : Prop :=
  ∀ id p, c.proposals.get? id = some p → p.Fits → ∀ blk, ∃ st, p.currentStatus blk = .ok st

theorem statusInv_empty : StatusInv Core.empty := by
  intro id p hp; simp [Core.empty] at hp

/-- Updating one proposal by a record that has a status everywhere keeps the invariant. -/
theorem statusInv_set {c : Core} {id : Nat} {q : Proposal} (hi : StatusInv c)
    (hq : q.Fits → ∀ blk, ∃ st, q.currentStatus blk = .ok st) (cnt : Nat) (bs : AMap Nat (AMap Addr Ballot)) :
    StatusInv { count := cnt, proposals := c.proposals.set id q, ballots := bs } := by
  intro id' p hp
  simp only [AMap.get?_set] at hp
  by_cases e : id = id'
  · simp only [e, if_true, Option.some.injEq] at hp; subst hp; exact hq
  · simp only [e, if_false] at hp; exact hi id' p hp

theorem propose_statusInv {c c' : Core} {blk : Block} {snd : Addr} {w : Nat} {thr : Threshold} {total : Nat}
    {maxP : Duration} {t d : String} {msgs : List Msg} {latest : Option Expiration} {dep : Option Deposit} {id : Nat}
    (h : propose c blk snd w thr total maxP t d msgs latest dep = .ok (c', id)) (hi : StatusInv c) : StatusInv c' := by
  obtain ⟨expires, st, _, hst, _, _, rfl⟩ := propose_spec h
  refine statusInv_set hi ?_ _ _
  intro hfit blk'
  exact cs_stable (t := Proposal.tally _) hst hfit blk'

theorem vote_statusInv {c c' : Core} {blk : Block} {snd : Addr} {id : Nat} {v : Vote} {weight : Proposal → Option Nat}
    (h : vote c blk snd id v weight = .ok c') (hi : StatusInv c) : StatusInv c' := by
  obtain ⟨p, w, votes, st, _, _, _, _, _, _, _, hst, rfl⟩ := vote_spec h
  refine statusInv_set hi ?_ _ _
  intro hfit blk'
  exact cs_stable (t := Proposal.tally _) hst hfit blk'

theorem execute_statusInv {c c' : Core} {blk : Block} {id : Nat} {auth : Bool} {out : List Msg}
    (h : execute c blk id auth = .ok (c', out)) (hi : StatusInv c) : StatusInv c' := by
  obtain ⟨p, _, _, _, _, rfl⟩ := execute_spec h
  exact statusInv_set hi (fun _ _ => ⟨_, cs_of_ne_open (t := Proposal.tally _) (by simp [Proposal.tally])⟩) _ _

theorem close_statusInv {c c' : Core} {blk : Block} {id : Nat} (h : close c blk id = .ok c') (hi : StatusInv c) :
    StatusInv c' := by
  obtain ⟨p, _, _, _, _, _, _, _, _, rfl⟩ := close_spec h
  exact statusInv_set hi (fun _ _ => ⟨_, cs_of_ne_open (t := Proposal.tally _) (by simp [Proposal.tally])⟩) _ _

end CwPlus.Cw3Core

namespace CwPlus.Cw3Flex
open CwPlus CwPlus.Cw3 CwPlus.Cw3Core

theorem instantiate_statusInv {m : InstMsg} {g : Option Cw4Group.State} {s : State} (h : instantiate m g = .ok s) :
    StatusInv s.core := by
  simp only [instantiate, Res.bind_ok] at h
  obtain ⟨_, _, total, _, _, _, dep, hdep, h⟩ := h
  simp at h; subst h
  exact statusInv_empty

theorem execute_statusInv {s s' : State} {g : Cw4Group.State} {self : Addr} {blk : Block} {snd : Addr}
    {funds : List Coin} {m : ExecMsg} {out : List Out} (hi : StatusInv s.core)
    (h : execute s g self blk snd funds m = .ok (s', out)) : StatusInv s'.core := by
  obtain ⟨_, hc⟩ := execute_cases h
  rcases hc with ⟨t, d, msgs, latest, w, total, id, _, _, _, _, _, hp⟩ | ⟨id, v, _, _, hv⟩ | ⟨id, p, msgs, _, _, he, _⟩ |
    ⟨id, p, _, _, hcl, _⟩ | ⟨_, _, rfl, _⟩
  · exact propose_statusInv hp hi
  · exact vote_statusInv hv hi
  · exact Cw3Core.execute_statusInv he hi
  · exact close_statusInv hcl hi
  · exact hi

/-- In every reachable cw3-flex world, every stored proposal whose tally fits `u64` has a status at every block. -/
theorem reachable_statusInv {ext : Ext} {fuel : Nat} {w : World} (h : Reachable ext fuel w) : StatusInv w.flex.core := by
  obtain ⟨m, s, g, t, bank, self, ga, ta, h0, ops, hi, rfl⟩ := h
  exact run_state_inv ext (fun s => StatusInv s.core) (fun _ _ _ _ _ _ _ _ _ hn h => execute_statusInv hn h)
    fuel ops _ (instantiate_statusInv hi)

end CwPlus.Cw3Flex
