import CwPlus.Props.C04
import CwPlus.Lemmas.Cw3Core
/-!
# Status of a proposal versus the documented rule, generically for both multisigs

Helper lemmas for C03 / C05 (both cw3-fixed and cw3-flex), on top of the arithmetic theorems of
`Props/C04.lean` and the shared core (`Lemmas/Cw3Core.lean`):

* `exact_outcome9`, `exact_outcome18` — what `current_status` of an Open-stored tally means in exact
  arithmetic (for-all-completions reading), inside the premise of C04;
* `CoreStep`, `PropStep`, `coreStep_prop` — one operation of the core seen from one proposal: it is
  untouched, created, voted on, executed or closed;
* per-proposal invariants preserved by every operation: `OpenOk` (a vote stores an early decision at
  once), `DecidedOk` (a stored Passed / Rejected is backed by the recorded tally now and at every later
  block; conditional on the premise of C04 for that tally), `FrozenOk` (after expiry only Execute and
  Close can change anything).
-/
namespace CwPlus.Cw3Core
open CwPlus CwPlus.Cw3 CwPlus.Props

/-! ## 1. the documented rule, for every completion of the outstanding votes -/

/-- "Certain to satisfy `rule`": once expired the recorded tally satisfies it; before expiry every
completion `c` of the outstanding votes (any further yes/no/abstain/veto weights keeping the tally
within the total weight) does. -/
def CertainBy (rule : Threshold → Nat → Votes → Bool) (thr : Threshold) (total : Nat) (v : Votes) (expired : Bool) : Prop :=
  (expired = true → rule thr total v = true) ∧
  (expired = false → ∀ c : Votes, C04.cast (C04.plus v c) ≤ total → rule thr total (C04.plus v c) = true)

/-- "Expired without satisfying `rule`, or can no longer satisfy it": once expired the recorded tally
fails it; before expiry every completion of the outstanding votes fails it. -/
def HopelessBy (rule : Threshold → Nat → Votes → Bool) (thr : Threshold) (total : Nat) (v : Votes) (expired : Bool) : Prop :=
  (expired = true ∧ rule thr total v = false) ∨
  (expired = false ∧ ∀ c : Votes, C04.cast (C04.plus v c) ≤ total → rule thr total (C04.plus v c) = false)

/-- the library's `is_passed` is true exactly when the library's own final rule is certain -/
theorem isPassed_iff_certain_lib {t : Tally} (h : C04.Premise t) (blk : Block) :
    Cw3.isPassed t blk = .ok true ↔
      CertainBy C04.libPasses t.threshold t.totalWeight t.votes (t.expires.isExpired blk) := by
  cases he : t.expires.isExpired blk with
  | true =>
    rw [C04.expired_decision_eq_formula h he]
    constructor
    · intro hp; exact ⟨fun _ => Except.ok.inj hp, fun hf => by cases hf⟩
    · intro hc; exact congrArg _ (hc.1 rfl)
  | false =>
    constructor
    · intro hp; exact ⟨fun hf => (by cases hf), fun _ c hc => C04.passed_sound h he hp c hc⟩
    · intro hc; exact C04.passed_complete h he (hc.2 rfl)

/-- 9-decimal thresholds: `is_passed` is true exactly when the EXACT documented rule is certain -/
theorem isPassed_iff_certain9 {t : Tally} (h : C04.Premise t) (h9 : C04.nineDecimals t.threshold) (blk : Block) :
    Cw3.isPassed t blk = .ok true ↔
      CertainBy C04.exactPasses t.threshold t.totalWeight t.votes (t.expires.isExpired blk) := by
  rw [isPassed_iff_certain_lib h blk]
  unfold CertainBy
  rw [C04.libPasses_eq_exact9 h.valid h.tally_le h.total_u64 h9]
  constructor
  · intro hc
    exact ⟨hc.1, fun he c hcc => by rw [← C04.libPasses_eq_exact9 h.valid hcc h.total_u64 h9]; exact hc.2 he c hcc⟩
  · intro hc
    exact ⟨hc.1, fun he c hcc => by rw [C04.libPasses_eq_exact9 h.valid hcc h.total_u64 h9]; exact hc.2 he c hcc⟩

/-- 18-digit thresholds: never stricter than the exact rule, at most one vote more permissive -/
theorem isPassed_certain18 {t : Tally} (h : C04.Premise t) (blk : Block) :
    (CertainBy C04.exactPasses t.threshold t.totalWeight t.votes (t.expires.isExpired blk) → Cw3.isPassed t blk = .ok true) ∧
    (Cw3.isPassed t blk = .ok true → CertainBy C04.laxPasses t.threshold t.totalWeight t.votes (t.expires.isExpired blk)) := by
  rw [isPassed_iff_certain_lib h blk]
  constructor
  · intro hc
    exact ⟨fun he => (C04.libPasses_within_one h.valid h.tally_le h.total_u64).1 (hc.1 he),
      fun he c hcc => (C04.libPasses_within_one h.valid hcc h.total_u64).1 (hc.2 he c hcc)⟩
  · intro hc
    exact ⟨fun he => (C04.libPasses_within_one h.valid h.tally_le h.total_u64).2 (hc.1 he),
      fun he c hcc => (C04.libPasses_within_one h.valid hcc h.total_u64).2 (hc.2 he c hcc)⟩

theorem exact_false_of_lib_false {thr : Threshold} {total : Nat} {v : Votes}
    (hv : thr.validate total = .ok ()) (hc : C04.cast v ≤ total) (hu : total ≤ U64_MAX)
    (h : C04.libPasses thr total v = false) : C04.exactPasses thr total v = false := by
  apply Bool.eq_false_iff.mpr
  intro hx
  rw [(C04.libPasses_within_one hv hc hu).1 hx] at h
  cases h

/-- a reported Rejected (stored Open) means: expired without passing, or no completion can pass —
against the library's rule and against the exact rule -/
theorem rejected_hopeless {t : Tally} (ho : t.status = .open) (h : C04.Premise t) {blk : Block}
    (hs : Cw3.currentStatus t blk = .ok .rejected) :
    HopelessBy C04.libPasses t.threshold t.totalWeight t.votes (t.expires.isExpired blk) ∧
    HopelessBy C04.exactPasses t.threshold t.totalWeight t.votes (t.expires.isExpired blk) := by
  rcases cs_of_open ho hs with ⟨_, hx⟩ | ⟨hp, rej, hr, ⟨hre, _⟩ | ⟨_, hx⟩⟩
  · cases hx
  · cases he : t.expires.isExpired blk with
    | true =>
      rw [C04.expired_decision_eq_formula h he] at hp
      have hl := Except.ok.inj hp
      exact ⟨Or.inl ⟨rfl, hl⟩, Or.inl ⟨rfl, exact_false_of_lib_false h.valid h.tally_le h.total_u64 hl⟩⟩
    | false =>
      rw [he] at hre
      have hrej : rej = true := by rcases hre with h1 | h1 <;> first | exact h1 | cases h1
      subst hrej
      exact ⟨Or.inr ⟨rfl, fun c hc => C04.rejected_sound h he hr c hc⟩,
        Or.inr ⟨rfl, fun c hc => C04.rejected_sound_exact h he hr c hc⟩⟩
  · cases hx

/-- `current_status` of an Open-stored tally inside the premise: it is defined, it is Open, Passed or
Rejected, Passed iff `is_passed`, Open only before expiry. -/
theorem open_status_cases {t : Tally} (ho : t.status = .open) (h : C04.Premise t) (blk : Block) :
    ∃ st, Cw3.currentStatus t blk = .ok st ∧ (st = .open ∨ st = .passed ∨ st = .rejected) ∧
      (st = .passed ↔ Cw3.isPassed t blk = .ok true) ∧ (st = .open → t.expires.isExpired blk = false) := by
  obtain ⟨st, hst⟩ := (C04.no_panic h blk).2.2
  refine ⟨st, hst, ?_⟩
  rcases cs_of_open ho hst with ⟨hp, rfl⟩ | ⟨hp, rej, hr, ⟨hre, rfl⟩ | ⟨⟨_, hne⟩, rfl⟩⟩
  · exact ⟨Or.inr (Or.inl rfl), ⟨fun _ => hp, fun _ => rfl⟩, fun hx => by cases hx⟩
  · refine ⟨Or.inr (Or.inr rfl), ⟨fun hx => (by cases hx), fun hx => ?_⟩, fun hx => by cases hx⟩
    rw [hp] at hx; cases hx
  · refine ⟨Or.inl rfl, ⟨fun hx => (by cases hx), fun hx => ?_⟩, fun _ => hne⟩
    rw [hp] at hx; cases hx

/-- **Status = the exact documented rule (thresholds with at most 9 decimals).**  Inside the premise
of C04 the status computed for an Open-stored tally at block `blk` is
* Passed exactly when the Yes weight is positive and the count / percentage / quorum rule holds in
  exact cross-multiplied integer arithmetic for every completion of the outstanding votes (after
  expiry: for the recorded tally itself);
* Rejected only if it expired without passing or no completion can pass;
* Open otherwise, and only before expiry. -/
theorem exact_outcome9 {t : Tally} (ho : t.status = .open) (h : C04.Premise t) (h9 : C04.nineDecimals t.threshold)
    (blk : Block) :
    ∃ st, Cw3.currentStatus t blk = .ok st ∧
      (st = .passed ↔ 0 < t.votes.yes ∧
        CertainBy C04.exactPasses t.threshold t.totalWeight t.votes (t.expires.isExpired blk)) ∧
      (st = .rejected → HopelessBy C04.exactPasses t.threshold t.totalWeight t.votes (t.expires.isExpired blk)) ∧
      (st = .open → t.expires.isExpired blk = false) ∧
      (st = .open ∨ st = .passed ∨ st = .rejected) := by
  obtain ⟨st, hst, htri, hpass, hopen⟩ := open_status_cases ho h blk
  refine ⟨st, hst, ?_, ?_, hopen, htri⟩
  · rw [hpass]
    constructor
    · intro hp; exact ⟨C04.passed_needs_yes hp, (isPassed_iff_certain9 h h9 blk).mp hp⟩
    · intro hc; exact (isPassed_iff_certain9 h h9 blk).mpr hc.2
  · intro hr; subst hr; exact (rejected_hopeless ho h hst).2

/-- **Status versus the exact rule, thresholds with up to 18 digits**: the library floors once before
taking the ceiling, so the reported status is never stricter than the exact rule and at most one vote
more permissive: exact-certain ⇒ Passed ⇒ certain with one vote of slack on every percentage
requirement; a Rejected still excludes every completion in exact arithmetic. -/
theorem exact_outcome18 {t : Tally} (ho : t.status = .open) (h : C04.Premise t) (blk : Block) :
    ∃ st, Cw3.currentStatus t blk = .ok st ∧
      (CertainBy C04.exactPasses t.threshold t.totalWeight t.votes (t.expires.isExpired blk) → st = .passed) ∧
      (st = .passed → 0 < t.votes.yes ∧
        CertainBy C04.laxPasses t.threshold t.totalWeight t.votes (t.expires.isExpired blk)) ∧
      (st = .rejected → HopelessBy C04.exactPasses t.threshold t.totalWeight t.votes (t.expires.isExpired blk)) ∧
      (st = .open → t.expires.isExpired blk = false) ∧
      (st = .open ∨ st = .passed ∨ st = .rejected) := by
  obtain ⟨st, hst, htri, hpass, hopen⟩ := open_status_cases ho h blk
  refine ⟨st, hst, ?_, ?_, ?_, hopen, htri⟩
  · intro hc; exact hpass.mpr ((isPassed_certain18 h blk).1 hc)
  · intro hs
    have hp := hpass.mp hs
    exact ⟨C04.passed_needs_yes hp, (isPassed_certain18 h blk).2 hp⟩
  · intro hr; subst hr; exact (rejected_hopeless ho h hst).2

/-! ## 2. one operation of the core, seen from one proposal -/

/-- One successful operation of the shared core at block `b` (what every successful handler call of
cw3-fixed and of cw3-flex is; `same` = a handler that does not touch the core). -/
inductive CoreStep (b : Block) (c c' : Core) : Prop
  | propose (snd : Addr) (w : Nat) (thr : Threshold) (total : Nat) (maxP : Duration) (t d : String) (msgs : List Msg)
      (latest : Option Expiration) (dep : Option Deposit) (id : Nat) :
      Cw3Core.propose c b snd w thr total maxP t d msgs latest dep = .ok (c', id) → CoreStep b c c'
  | vote (snd : Addr) (id : Nat) (v : Vote) (weight : Proposal → Option Nat) :
      Cw3Core.vote c b snd id v weight = .ok c' → CoreStep b c c'
  | execute (id : Nat) (auth : Bool) (out : List Msg) : Cw3Core.execute c b id auth = .ok (c', out) → CoreStep b c c'
  | close (id : Nat) : Cw3Core.close c b id = .ok c' → CoreStep b c c'
  | same : c' = c → CoreStep b c c'

theorem coreStep_wf {b : Block} {c c' : Core} (hw : WF c) (h : CoreStep b c c') : WF c' := by
  cases h with
  | propose _ _ _ _ _ _ _ _ _ _ _ h => exact propose_wf hw h
  | vote _ _ _ _ h => exact vote_wf hw h
  | execute _ _ _ h => exact execute_wf hw h
  | close _ h => exact close_wf hw h
  | same h => exact h ▸ hw

theorem coreStep_later {b : Block} {c c' : Core} (hw : WF c) (h : CoreStep b c c') : Later c c' := by
  cases h with
  | propose _ _ _ _ _ _ _ _ _ _ _ h => exact propose_later hw h
  | vote _ _ _ _ h => exact vote_later h
  | execute _ _ _ h => exact execute_later h
  | close _ h => exact close_later hw h
  | same h => exact h ▸ later_refl c

/-- What one operation at block `b` does to one proposal slot: nothing; creation (status = the
decision on the proposer's own Yes); a vote before expiry on a votable proposal (tally grows, status
recomputed); Execute of a proposal whose current status is Passed; Close of an Open-stored, expired
proposal whose current status is not Passed. -/
inductive PropStep (b : Block) : Option Proposal → Proposal → Prop
  | same (p : Proposal) : PropStep b (some p) p
  | created (p : Proposal) (st : Status) : p.status = .open → p.currentStatus b = .ok st →
      PropStep b none { p with status := st }
  | voted (p : Proposal) (v : Vote) (w : Nat) (votes : Votes) (st : Status) :
      votable p.status = true → p.expires.isExpired b = false → p.votes.add v w = .ok votes →
      Proposal.currentStatus { p with votes := votes } b = .ok st →
      PropStep b (some p) { p with votes := votes, status := st }
  | executed (p : Proposal) : p.currentStatus b = .ok .passed → PropStep b (some p) { p with status := .executed }
  | closed (p : Proposal) (st : Status) : p.status = .open → p.currentStatus b = .ok st → st ≠ .passed →
      p.expires.isExpired b = true → PropStep b (some p) { p with status := .rejected }

theorem coreStep_prop {b : Block} {c c' : Core} (hw : WF c) (h : CoreStep b c c') {id : Nat} {p' : Proposal}
    (hp' : c'.proposals.get? id = some p') : PropStep b (c.proposals.get? id) p' := by
  cases h with
  | propose snd w thr total maxP t d msgs latest dep id0 h =>
    obtain ⟨expires, st, _, hst, hid, _, hc'⟩ := propose_spec h
    have hnone : c.proposals.get? id0 = none := hw.fresh (by omega)
    rw [hc'] at hp'; simp only [AMap.get?_set] at hp'
    by_cases e : id0 = id
    · simp only [e, if_true, Option.some.injEq] at hp'
      subst e; rw [hnone]; subst hp'
      exact PropStep.created _ st rfl hst
    · simp only [e, if_false] at hp'; rw [hp']; exact PropStep.same p'
  | vote snd id0 v weight h =>
    obtain ⟨p, w, votes, st, hp, hvot, hne, _, _, _, hadd, hst, hc'⟩ := vote_spec h
    rw [hc'] at hp'; simp only [AMap.get?_set] at hp'
    by_cases e : id0 = id
    · simp only [e, if_true, Option.some.injEq] at hp'
      subst e; rw [hp]; subst hp'
      exact PropStep.voted p v w votes st hvot hne hadd hst
    · simp only [e, if_false] at hp'; rw [hp']; exact PropStep.same p'
  | execute id0 auth out h =>
    obtain ⟨p, hp, hst, _, _, hc'⟩ := execute_spec h
    rw [hc'] at hp'; simp only [AMap.get?_set] at hp'
    by_cases e : id0 = id
    · simp only [e, if_true, Option.some.injEq] at hp'
      subst e; rw [hp]; subst hp'
      exact PropStep.executed p hst
    · simp only [e, if_false] at hp'; rw [hp']; exact PropStep.same p'
  | close id0 h =>
    obtain ⟨p, st, hp, h1, h2, h3, hst, hne, hexp, hc'⟩ := close_spec h
    have h4 := hw.notPending id0 p hp
    have ho : p.status = .open := by cases hs : p.status <;> simp_all
    rw [hc'] at hp'; simp only [AMap.get?_set] at hp'
    by_cases e : id0 = id
    · simp only [e, if_true, Option.some.injEq] at hp'
      subst e; rw [hp]; subst hp'
      exact PropStep.closed p st ho hst hne hexp
    · simp only [e, if_false] at hp'; rw [hp']; exact PropStep.same p'
  | same h => subst h; rw [hp']; exact PropStep.same p'

/-- A predicate on (id, proposal) that holds for every stored proposal. -/
def AllP (Q : Nat → Proposal → Prop) (c : Core) : Prop := ∀ id p, c.proposals.get? id = some p → Q id p

/-- … is preserved by an operation if it is preserved by every `PropStep`. -/
theorem allP_step {Q : Nat → Proposal → Prop} {b : Block} {c c' : Core} (hw : WF c)
    (hstep : ∀ id o p', (∀ p, o = some p → Q id p) → PropStep b o p' → Q id p')
    (ha : AllP Q c) (h : CoreStep b c c') : AllP Q c' :=
  fun id p' hp' => hstep id _ p' (fun p hp => ha id p hp) (coreStep_prop hw h hp')

theorem allP_empty (Q : Nat → Proposal → Prop) : AllP Q Core.empty := by
  intro id p hp; simp [Core.empty] at hp

/-! ## 3. per-proposal invariants -/

/-- A vote that decides a proposal early stores the decision at once: a proposal stored Open and not
yet expired at `b` is reported Open at `b`. -/
def OpenOk (b : Block) (p : Proposal) : Prop :=
  p.status = .open → p.expires.isExpired b = false → p.currentStatus b = .ok .open

/-- The library decision depends on the block only through "has the proposal expired". -/
theorem cs_congr {t : Tally} {b b' : Block} (h : t.expires.isExpired b = t.expires.isExpired b') :
    Cw3.currentStatus t b = Cw3.currentStatus t b' := by
  have h1 : Cw3.isPassed t b = Cw3.isPassed t b' := by simp only [Cw3.isPassed, h]
  have h2 : Cw3.isRejected t b = Cw3.isRejected t b' := by simp only [Cw3.isRejected, h]
  simp only [Cw3.currentStatus, h, h1, h2]

theorem not_expired_earlier {e : Expiration} {b b' : Block} (hl : C04.later b b') (h : e.isExpired b' = false) :
    e.isExpired b = false := by
  cases he : e.isExpired b with
  | false => rfl
  | true => rw [C04.expired_mono hl he] at h; cases h

theorem openOk_mono {b b2 : Block} {p : Proposal} (hb : C04.later b b2) (h : OpenOk b p) : OpenOk b2 p := by
  intro ho hne
  have hne0 := not_expired_earlier hb hne
  rw [← h ho hne0]
  exact (cs_congr (t := p.tally) (by simp [Proposal.tally, hne, hne0])).symm

theorem sticky_status {p : Proposal} {votes : Votes} {b : Block} {st : Status} (hn : p.status ≠ .open)
    (hst : Proposal.currentStatus { p with votes := votes } b = .ok st) : st = p.status := by
  have : Cw3.currentStatus (Proposal.tally { p with votes := votes }) b = .ok p.status :=
    cs_of_ne_open (t := Proposal.tally { p with votes := votes }) (by simpa [Proposal.tally] using hn)
  exact (Except.ok.inj (hst.symm.trans this))

theorem openOk_step {b : Block} {o : Option Proposal} {p' : Proposal} (hold : ∀ p, o = some p → OpenOk b p)
    (h : PropStep b o p') : OpenOk b p' := by
  cases h with
  | same _ => exact hold _ rfl
  | created p st ho hst =>
    intro ho' _
    have : st = .open := ho'
    subst this
    have e : ({ p with status := Status.open } : Proposal) = p := by cases p; simp_all
    rw [e]; exact hst
  | voted p v w votes st hvot hne hadd hst =>
    intro ho' _
    have : st = .open := ho'
    subst this
    by_cases h0 : p.status = .open
    · have e : ({ p with votes := votes, status := Status.open } : Proposal) = { p with votes := votes } := by
        cases p; simp_all
      rw [e]; exact hst
    · exact absurd (sticky_status h0 hst).symm h0
  | executed p _ => intro ho'; cases ho'
  | closed p st _ _ _ _ => intro ho'; cases ho'

/-- the decision-relevant part of a proposal with the stored status forgotten -/
def openT (p : Proposal) : Tally := ⟨.open, p.threshold, p.totalWeight, p.votes, p.expires⟩

theorem tally_eq_openT {p : Proposal} (ho : p.status = .open) : p.tally = openT p := by
  simp [Proposal.tally, openT, ho]

/-- The recorded tally passes the library decision at `b` and at every later block. -/
def PassedFrom (b : Block) (p : Proposal) : Prop :=
  ∀ b', C04.later b b' → Cw3.isPassed (openT p) b' = .ok true

/-- The recorded tally is decided Rejected at `b` and at every later block. -/
def RejectedFrom (b : Block) (p : Proposal) : Prop :=
  ∀ b', C04.later b b' → Cw3.currentStatus (openT p) b' = .ok .rejected

/-- A stored Passed / Rejected is backed by the recorded tally now and at every later block —
provided the tally is inside the premise of C04 (always for cw3-fixed; for cw3-flex outside the
known same-block finding). -/
def DecidedOk (b : Block) (p : Proposal) : Prop :=
  C04.Premise (openT p) → (p.status = .passed → PassedFrom b p) ∧ (p.status = .rejected → RejectedFrom b p)

theorem later_refl_blk (b : Block) : C04.later b b := ⟨Nat.le_refl _, Nat.le_refl _⟩
theorem later_trans_blk {a b c : Block} (h1 : C04.later a b) (h2 : C04.later b c) : C04.later a c :=
  ⟨Nat.le_trans h1.1 h2.1, Nat.le_trans h1.2 h2.2⟩

theorem decidedOk_mono {b b2 : Block} {p : Proposal} (hb : C04.later b b2) (h : DecidedOk b p) : DecidedOk b2 p :=
  fun hp => ⟨fun hs b' hb' => (h hp).1 hs b' (later_trans_blk hb hb'), fun hs b' hb' => (h hp).2 hs b' (later_trans_blk hb hb')⟩

theorem isPassed_openT (p : Proposal) (b : Block) : Cw3.isPassed (openT p) b = Cw3.isPassed p.tally b := rfl

theorem passedFrom_of_cs {b : Block} {p : Proposal} (ho : p.status = .open) (hprem : C04.Premise (openT p))
    (hst : p.currentStatus b = .ok .passed) : PassedFrom b p := by
  intro b' hb'
  have hst' : Cw3.currentStatus (openT p) b = .ok .passed := by rw [← tally_eq_openT ho]; exact hst
  rcases cs_of_open (t := openT p) rfl hst' with ⟨hp, _⟩ | ⟨_, rej, _, ⟨_, hx⟩ | ⟨_, hx⟩⟩
  · exact C04.passed_stable_time hprem hb' hp
  · cases hx
  · cases hx

theorem rejectedFrom_of_cs {b : Block} {p : Proposal} (ho : p.status = .open) (hprem : C04.Premise (openT p))
    (hst : p.currentStatus b = .ok .rejected) : RejectedFrom b p := by
  intro b' hb'
  have hst' : Cw3.currentStatus (openT p) b = .ok .rejected := by rw [← tally_eq_openT ho]; exact hst
  have := C04.rejected_stable hprem hb' hst' C04.noVotes (by rw [C04.plus_noVotes]; exact hprem.tally_le) (fun _ => rfl)
  rw [C04.plus_noVotes] at this
  exact this

/-- the single ballot `(w, v)` as a tally increment -/
def oneVote (v : Vote) (w : Nat) : Votes := ⟨wOf .yes ⟨w, v⟩, wOf .no ⟨w, v⟩, wOf .abstain ⟨w, v⟩, wOf .veto ⟨w, v⟩⟩

theorem add_eq_plus {votes votes' : Votes} {v : Vote} {w : Nat} (h : votes.add v w = .ok votes') :
    votes' = C04.plus votes (oneVote v w) := by
  rw [add_eq h]; rfl

theorem premise_before_vote {p : Proposal} {votes : Votes} {v : Vote} {w : Nat} (hadd : p.votes.add v w = .ok votes)
    (h : C04.Premise (openT { p with votes := votes })) : C04.Premise (openT p) := by
  have e := add_eq_plus hadd
  refine ⟨?_, h.total_u64, h.valid⟩
  have := h.tally_le
  simp only [openT, e, C04.cast, C04.plus] at this ⊢
  omega

theorem decidedOk_step {b : Block} {o : Option Proposal} {p' : Proposal} (hold : ∀ p, o = some p → DecidedOk b p)
    (h : PropStep b o p') : DecidedOk b p' := by
  cases h with
  | same _ => exact hold _ rfl
  | created p st ho hst =>
    intro hprem
    have hprem' : C04.Premise (openT p) := hprem
    constructor
    · intro hs
      have : st = .passed := hs
      subst this
      exact passedFrom_of_cs (p := p) ho hprem' hst
    · intro hs
      have : st = .rejected := hs
      subst this
      exact rejectedFrom_of_cs (p := p) ho hprem' hst
  | voted p v w votes st hvot hne hadd hst =>
    intro hprem
    have hq : C04.Premise (openT { p with votes := votes }) := hprem
    have hp0 := premise_before_vote hadd hq
    have e := add_eq_plus hadd
    have hc : C04.cast (C04.plus p.votes (oneVote v w)) ≤ p.totalWeight := by rw [← e]; exact hq.tally_le
    subst e
    by_cases h0 : p.status = .open
    · constructor
      · intro hs
        have : st = .passed := hs
        subst this
        exact passedFrom_of_cs (p := { p with votes := _ }) h0 hq hst
      · intro hs
        have : st = .rejected := hs
        subst this
        exact rejectedFrom_of_cs (p := { p with votes := _ }) h0 hq hst
    · have hst' := sticky_status h0 hst
      constructor
      · intro hs
        have hs0 : p.status = .passed := by rw [← hst']; exact hs
        have hpf := (hold p rfl hp0).1 hs0
        intro b' hb'
        have := C04.passed_stable hp0 hb' (hpf b (later_refl_blk b)) (oneVote v w) hc
          (fun he => by rw [show (openT p).expires = p.expires from rfl, hne] at he; cases he)
        exact this
      · intro hs
        have hs0 : p.status = .rejected := by rw [← hst']; exact hs
        have hrf := (hold p rfl hp0).2 hs0
        intro b' hb'
        have := C04.rejected_stable hp0 hb' (hrf b (later_refl_blk b)) (oneVote v w) hc
          (fun he => by rw [show (openT p).expires = p.expires from rfl, hne] at he; cases he)
        exact this
  | executed p _ => intro _; exact ⟨fun hs => (by cases hs), fun hs => (by cases hs)⟩
  | closed p st ho hst hne hexp =>
    intro hprem
    have hprem' : C04.Premise (openT p) := hprem
    refine ⟨fun hs => (by cases hs), fun _ => ?_⟩
    have hst' : Cw3.currentStatus p.tally b = .ok st := hst
    have : st = .rejected := by
      rcases cs_of_open (t := p.tally) (by simp [Proposal.tally, ho]) hst' with ⟨_, rfl⟩ | ⟨_, rej, _, ⟨_, rfl⟩ | ⟨⟨_, hne'⟩, rfl⟩⟩
      · exact absurd rfl hne
      · rfl
      · simp [Proposal.tally] at hne'; rw [hexp] at hne'; cases hne'
    subst this
    exact rejectedFrom_of_cs (p := p) ho hprem' hst

/-! ## 4. after expiry only Execute and Close can change anything -/

/-- Relative to a proposal `p0` that was stored Open, had expired, and was then reported `st1`:
the proposal still has the same expiry, and either its decision-relevant part is untouched, or its
stored status has left Open along a forward edge from `st1`. -/
def FrozenOk (p0 : Proposal) (st1 : Status) (p : Proposal) : Prop :=
  p.expires = p0.expires ∧ (p.tally = p0.tally ∨ (p.status ≠ .open ∧ edge st1 p.status = true))

/-- the status reported for an expired, Open-stored proposal is Passed or Rejected -/
theorem expired_status {t : Tally} {b : Block} {st : Status} (ho : t.status = .open) (he : t.expires.isExpired b = true)
    (hst : Cw3.currentStatus t b = .ok st) : st = .passed ∨ st = .rejected := by
  rcases cs_of_open ho hst with ⟨_, rfl⟩ | ⟨_, rej, _, ⟨_, rfl⟩ | ⟨⟨_, hne⟩, rfl⟩⟩
  · exact Or.inl rfl
  · exact Or.inr rfl
  · rw [he] at hne; cases hne

theorem frozenOk_step {b : Block} {p0 : Proposal} {st1 : Status} (ho : p0.status = .open)
    (hexp : p0.expires.isExpired b = true) (hcs : p0.currentStatus b = .ok st1)
    {p p' : Proposal} (hf : FrozenOk p0 st1 p) (h : PropStep b (some p) p') : FrozenOk p0 st1 p' := by
  obtain ⟨hexpEq, hcase⟩ := hf
  generalize ho' : some p = o at h
  cases h with
  | same q => cases ho'; exact ⟨hexpEq, hcase⟩
  | created q st _ _ => cases ho'
  | voted q v w votes st hvot hne hadd hst =>
    cases ho'
    rw [hexpEq, hexp] at hne; cases hne
  | executed q hst =>
    cases ho'
    refine ⟨hexpEq, Or.inr ⟨by simp, ?_⟩⟩
    rcases hcase with ht | ⟨hn, he⟩
    · have : Cw3.currentStatus p0.tally b = .ok .passed := by rw [← ht]; exact hst
      have e := Except.ok.inj (hcs.symm.trans this)
      subst e; rfl
    · have : Cw3.currentStatus p.tally b = .ok p.status := cs_of_ne_open (t := p.tally) hn
      have e : p.status = .passed := Except.ok.inj (this.symm.trans hst)
      rw [e] at he
      exact edge_trans he (by rfl)
  | closed q st hoq hst hne hexpq =>
    cases ho'
    refine ⟨hexpEq, Or.inr ⟨by simp, ?_⟩⟩
    rcases hcase with ht | ⟨hn, _⟩
    · have h1 : Cw3.currentStatus p0.tally b = .ok st := by rw [← ht]; exact hst
      have e : st1 = st := Except.ok.inj (hcs.symm.trans h1)
      subst e
      rcases expired_status (t := p0.tally) (by simp [Proposal.tally, ho]) (by simpa [Proposal.tally] using hexp) h1 with e | e
      · exact absurd e hne
      · subst e; rfl
    · exact absurd hoq hn

/-- `FrozenOk` as an invariant of the core (for one proposal id). -/
def FrozenAt (p0 : Proposal) (st1 : Status) (id : Nat) (c : Core) : Prop :=
  WF c ∧ ∃ p, c.proposals.get? id = some p ∧ FrozenOk p0 st1 p

theorem cs_expired_later {p0 : Proposal} {b1 b : Block} {st1 : Status} (hexp1 : p0.expires.isExpired b1 = true)
    (hcs1 : p0.currentStatus b1 = .ok st1) (hb : C04.later b1 b) : p0.currentStatus b = .ok st1 := by
  have he := C04.expired_mono hb hexp1
  rw [← hcs1]
  exact cs_congr (t := p0.tally) (by simp [Proposal.tally, he, hexp1])

theorem frozenAt_step {p0 : Proposal} {st1 : Status} {id : Nat} {b1 b : Block} {c c' : Core}
    (ho : p0.status = .open) (hexp1 : p0.expires.isExpired b1 = true) (hcs1 : p0.currentStatus b1 = .ok st1)
    (hb : C04.later b1 b) (hf : FrozenAt p0 st1 id c) (h : CoreStep b c c') : FrozenAt p0 st1 id c' := by
  obtain ⟨hw, p, hp, hfo⟩ := hf
  refine ⟨coreStep_wf hw h, ?_⟩
  obtain ⟨p', hp', _, _⟩ := (coreStep_later hw h).props id p hp
  have hps := coreStep_prop hw h hp'
  rw [hp] at hps
  exact ⟨p', hp', frozenOk_step ho (C04.expired_mono hb hexp1) (cs_expired_later hexp1 hcs1 hb) hfo hps⟩

/-- **The observed status only moves forward** (core of C05 `observed_status_monotone`): `p0` is the
proposal in an earlier core `c0`, observed at block `b1`; `p` the same proposal in a later core `c`,
observed at a later block `b2`.  Needed: `p0` obeys `OpenOk` at `b1`, the later core is `Later`, and —
if `p0` was stored Open and had expired at `b1` — the later proposal is `FrozenOk` relative to it. -/
theorem observed_edge_core {c0 c : Core} {b1 b2 : Block} {id : Nat} {p0 p : Proposal} {st1 st2 : Status}
    (hw : WF c) (hopen : OpenOk b1 p0) (hlater : Later c0 c)
    (hp0 : c0.proposals.get? id = some p0) (hp : c.proposals.get? id = some p)
    (hfrozen : p0.status = .open → p0.expires.isExpired b1 = true → FrozenOk p0 st1 p)
    (h12 : C04.later b1 b2) (hq1 : p0.currentStatus b1 = .ok st1) (hq2 : p.currentStatus b2 = .ok st2) :
    edge st1 st2 = true := by
  obtain ⟨p2, hp2, _, hedge⟩ := hlater.props id p0 hp0
  rw [hp] at hp2; cases hp2
  have hnp : st2 ≠ .pending := cs_ne_pending (t := p.tally) hq2 (hw.notPending id p hp)
  by_cases ho : p0.status = .open
  · cases he1 : p0.expires.isExpired b1 with
    | false =>
      have := hopen ho he1
      rw [this] at hq1; cases hq1
      cases st2 <;> simp_all [edge]
    | true =>
      obtain ⟨hexpEq, hcase⟩ := hfrozen ho he1
      rcases hcase with ht | ⟨hn, he⟩
      · have h2 : p0.currentStatus b2 = .ok st2 := by
          show Cw3.currentStatus p0.tally b2 = .ok st2
          rw [← ht]; exact hq2
        have := cs_expired_later he1 hq1 h12
        cases Except.ok.inj (this.symm.trans h2)
        exact edge_refl _
      · have : Cw3.currentStatus p.tally b2 = .ok p.status := cs_of_ne_open (t := p.tally) hn
        cases Except.ok.inj (this.symm.trans hq2)
        exact he
  · have e1 : Cw3.currentStatus p0.tally b1 = .ok p0.status := cs_of_ne_open (t := p0.tally) ho
    cases Except.ok.inj (e1.symm.trans hq1)
    have hn : p.status ≠ .open := by
      intro e; rw [e] at hedge
      cases hs : p0.status <;> simp_all [edge]
    have e2 : Cw3.currentStatus p.tally b2 = .ok p.status := cs_of_ne_open (t := p.tally) hn
    cases Except.ok.inj (e2.symm.trans hq2)
    exact hedge

/-- `edge` spelled out. -/
theorem edge_iff_cases (a b : Status) : edge a b = true ↔
    a = b ∨ (a = .open ∧ (b = .passed ∨ b = .rejected ∨ b = .executed)) ∨ (a = .passed ∧ b = .executed) := by
  cases a <;> cases b <;> simp [edge]

/-- what a successful `Proposal` query returned -/
theorem queryProposal_ok {c : Core} {blk : Block} {id : Nat} {v : ProposalView} (h : queryProposal c blk id = .ok v) :
    ∃ p, c.proposals.get? id = some p ∧ p.currentStatus blk = .ok v.status := by
  simp only [queryProposal, load_bind_ok] at h
  obtain ⟨p, hp, hv⟩ := h
  simp only [viewOf, Res.bind_ok] at hv
  obtain ⟨st, hst, hv⟩ := hv
  simp only [Res.pure_ok] at hv
  subst hv
  exact ⟨p, hp, hst⟩

/-! ## 5. the moment a Rejected / Passed is stored -/

/-- Whenever an operation at block `b` stores a proposal as Rejected (it was not stored Rejected
before), the library decision on its tally at that very block is Rejected. -/
theorem propStep_stores_rejected {b : Block} {o : Option Proposal} {p' : Proposal} (h : PropStep b o p')
    (hs : p'.status = .rejected) (hnew : ∀ p, o = some p → p.status ≠ .rejected) :
    Cw3.currentStatus (openT p') b = .ok .rejected := by
  cases h with
  | same _ => exact absurd hs (hnew _ rfl)
  | created p st ho hst =>
    have : st = .rejected := hs
    subst this
    show Cw3.currentStatus (openT p) b = .ok .rejected
    rw [← tally_eq_openT ho]; exact hst
  | voted p v w votes st hvot hne hadd hst =>
    have : st = .rejected := hs
    subst this
    by_cases h0 : p.status = .open
    · show Cw3.currentStatus (openT { p with votes := votes }) b = .ok .rejected
      rw [← tally_eq_openT (p := { p with votes := votes }) h0]; exact hst
    · exact absurd (sticky_status h0 hst).symm (hnew p rfl)
  | executed p _ => cases hs
  | closed p st ho hst hne hexp =>
    have hst' : Cw3.currentStatus p.tally b = .ok st := hst
    rcases expired_status (t := p.tally) (by simp [Proposal.tally, ho]) (by simpa [Proposal.tally] using hexp) hst' with e | e
    · exact absurd e hne
    · subst e
      show Cw3.currentStatus (openT p) b = .ok .rejected
      rw [← tally_eq_openT ho]; exact hst

/-- Whenever an operation at block `b` stores a proposal as Passed (it was not stored Passed before),
the library's `is_passed` holds for its tally at that very block. -/
theorem propStep_stores_passed {b : Block} {o : Option Proposal} {p' : Proposal} (h : PropStep b o p')
    (hs : p'.status = .passed) (hnew : ∀ p, o = some p → p.status ≠ .passed) :
    Cw3.currentStatus (openT p') b = .ok .passed := by
  cases h with
  | same _ => exact absurd hs (hnew _ rfl)
  | created p st ho hst =>
    have : st = .passed := hs
    subst this
    show Cw3.currentStatus (openT p) b = .ok .passed
    rw [← tally_eq_openT ho]; exact hst
  | voted p v w votes st hvot hne hadd hst =>
    have : st = .passed := hs
    subst this
    by_cases h0 : p.status = .open
    · show Cw3.currentStatus (openT { p with votes := votes }) b = .ok .passed
      rw [← tally_eq_openT (p := { p with votes := votes }) h0]; exact hst
    · exact absurd (sticky_status h0 hst).symm (hnew p rfl)
  | executed p _ => cases hs
  | closed p st ho hst hne hexp => cases hs

theorem cs_passed_of_isPassed {t : Tally} {b : Block} (ho : t.status = .open) (h : Cw3.isPassed t b = .ok true) :
    Cw3.currentStatus t b = .ok .passed := by
  unfold Cw3.currentStatus
  rw [if_neg (by simp [ho]), h, ok_bind]
  rfl

/-! ## 6. `OpenOk` at every block, on arbitrary histories -/

theorem cs_open_any_block {t : Tally} {b0 b : Block} (ho : t.status = .open) (h0 : Cw3.currentStatus t b0 = .ok .open)
    (hne : t.expires.isExpired b = false) : Cw3.currentStatus t b = .ok .open := by
  have hne0 : t.expires.isExpired b0 = false := by
    cases he : t.expires.isExpired b0 with
    | false => rfl
    | true => rcases expired_status ho he h0 with e | e <;> cases e
  rw [← h0]; exact cs_congr (by rw [hne, hne0])

/-- `OpenOk` holds at EVERY block, whatever the order of the blocks of the history: the library decision
depends on the block only through expiry, and a proposal is stored Open only by an operation that found
it undecided and not expired. -/
theorem openOk_all_step {b0 : Block} {o : Option Proposal} {p' : Proposal} (hold : ∀ p, o = some p → ∀ b, OpenOk b p)
    (h : PropStep b0 o p') : ∀ b, OpenOk b p' := by
  cases h with
  | same _ => exact hold _ rfl
  | created p st ho hst =>
    intro b ho' hne
    have : st = .open := ho'
    subst this
    have e : ({ p with status := Status.open } : Proposal) = p := by cases p; simp_all
    rw [e] at hne ⊢
    exact cs_open_any_block (t := p.tally) (by simp [Proposal.tally, ho]) hst (by simpa [Proposal.tally] using hne)
  | voted p v w votes st hvot hne0 hadd hst =>
    intro b ho' hne
    have : st = .open := ho'
    subst this
    by_cases h0 : p.status = .open
    · have e : ({ p with votes := votes, status := Status.open } : Proposal) = { p with votes := votes } := by
        cases p; simp_all
      rw [e] at hne ⊢
      exact cs_open_any_block (t := Proposal.tally { p with votes := votes }) (by simp [Proposal.tally, h0]) hst
        (by simpa [Proposal.tally] using hne)
    · exact absurd (sticky_status h0 hst).symm h0
  | executed p _ => intro b ho'; cases ho'
  | closed p st _ _ _ _ => intro b ho'; cases ho'

end CwPlus.Cw3Core
