import CwPlus.Model.Cw4Group
/-!
# Histories of cw4-group calls (shared by `Props/C09.lean` and `Props/C14.lean`)

`run s ops` folds the transaction semantics `step` (commit on `ok`, roll back on error) over a list of
calls, each with its block height, sender and message.  Core only.
-/
namespace CwPlus.Cw4Group

/-- One call: block height, sender, message. -/
structure Op where
  height : Nat
  sender : Addr
  msg : Msg

/-- One transaction (failed calls are rolled back). -/
def stepOp (s : State) (op : Op) : State := step s op.height op.sender op.msg

/-- A history of calls. -/
def run (s : State) (ops : List Op) : State := ops.foldl stepOp s

/-- Block heights never decrease along a history. -/
def Ordered (ops : List Op) : Prop := ops.Pairwise (fun a b => a.height ≤ b.height)

@[simp] theorem run_nil (s : State) : run s [] = s := rfl
@[simp] theorem run_cons (s : State) (op : Op) (ops : List Op) : run s (op :: ops) = run (stepOp s op) ops := rfl
theorem run_append (s : State) (ops ops' : List Op) : run s (ops ++ ops') = run (run s ops) ops' := by
  simp [run, List.foldl_append]

/-- All hook messages emitted along a history (failed calls emit nothing). -/
def outs : State → List Op → List Out
  | _, [] => []
  | s, op :: ops =>
    (match execute s op.height op.sender op.msg with
      | .ok (_, out) => out
      | .error _ => []) ++ outs (stepOp s op) ops

end CwPlus.Cw4Group
