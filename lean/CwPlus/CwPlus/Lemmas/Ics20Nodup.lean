import CwPlus.Lemmas.Ics20
/-!
# cw20-ics20: `ALLOW_LIST` never holds a token twice

`ALLOW_LIST` is written by `instantiate` (`addAllows`: one `save` per listed token) and by `execute_allow`
only; every other entry point (transfers, IBC callbacks with their sub-message dispatch and `reply`,
`migrate`) leaves it untouched (`exec_allow_cases`).  Hence `AMap.NodupKeys st.allow` in every world
reachable from an accepted instantiation (`run_nodup`).  Core only.
-/
namespace CwPlus.Ics20
open CwPlus

theorem addAllows_nodup : ∀ (l : List (AddrArg × Option Nat)) (m m' : AMap Addr (Option Nat)),
    addAllows l m = .ok m' → AMap.NodupKeys m → AMap.NodupKeys m'
  | [], m, m', h, hn => by simp [addAllows] at h; subst h; exact hn
  | (a, g) :: rest, m, m', h, hn => by
    simp [addAllows] at h
    exact addAllows_nodup rest _ m' h.2 (AMap.nodup_set hn)

/-- Every accepted instantiation establishes the invariant. -/
theorem instantiate_nodup {m : InstMsg} {s : State} (h : instantiate m = .ok s) : AMap.NodupKeys s.allow := by
  simp [instantiate] at h
  obtain ⟨_, allow, ha, rfl⟩ := h
  exact addAllows_nodup _ _ _ ha (by simp [AMap.NodupKeys, AMap.keys])

theorem updateBalances_allow {s s' : State} {hold : Denom → Option Nat} (h : updateBalances s hold = .ok s') :
    s'.allow = s.allow := by
  unfold updateBalances at h
  split at h
  · simp at h; subst h; rfl
  · simp at h; obtain ⟨m, _, rfl⟩ := h; rfl
  · simp at h

/-- `migrate` does not touch the allow list. -/
theorem migrate_allow {s s' : State} {gas : Option Nat} {hold : Denom → Option Nat} (h : migrate s gas hold = .ok s') :
    s'.allow = s.allow := by
  simp only [migrate, Res.bind_ok] at h
  obtain ⟨_, _, _, _, _, _, s1, h1, s2, h2, s3, h3, hp⟩ := h
  have e1 : s1.allow = s.allow := by
    split at h1
    · split at h1
      · simp at h1
      · simp [pure, Except.pure] at h1; subst h1; rfl
    · simp [pure, Except.pure] at h1; subst h1; rfl
  have e2 : s2.allow = s1.allow := by
    split at h2
    · exact updateBalances_allow h2
    · simp [pure, Except.pure] at h2; subst h2; rfl
  have e3 : s3.allow = s2.allow := by
    split at h3
    · simp at h3; obtain ⟨cfg, _, rfl⟩ := h3; rfl
    · simp [pure, Except.pure] at h3; subst h3; rfl
  simp only [pure, Except.pure, Except.ok.injEq] at hp
  subst hp
  split <;> simp [e1, e2, e3]

/-- A successful transaction leaves `ALLOW_LIST` unchanged or saves one entry (`execute_allow`). -/
theorem exec_allow_cases {w w' : World} {blk : Block} {op : Op} {o : Outcome} (h : w.exec blk op = .ok (w', o)) :
    w'.st.allow = w.st.allow ∨ ∃ k v, w'.st.allow = w.st.allow.set k v := by
  cases op with
  | connect id v cv ord =>
    simp [World.exec, ibcChannelConnect] at h
    obtain ⟨s, ⟨_, _, rfl⟩, rfl, rfl⟩ := h
    exact Or.inl rfl
  | chanOpen v cv ord => obtain ⟨rfl, _⟩ := exec_chanOpen h; exact Or.inl rfl
  | chanClose id => exact (exec_chanClose h).elim
  | transferNative snd funds msg =>
    obtain ⟨d, amt, w1, s, out, _, _, hb, ht, rfl, _⟩ := exec_transferNative_spec h
    obtain ⟨ch, _, rfl, _⟩ := execTransfer_spec ht
    exact Or.inl rfl
  | sendCw20 snd token amt msg =>
    obtain ⟨w1, m, s, out, _, _, hb, _, ht, rfl, _⟩ := exec_sendCw20_spec h
    obtain ⟨ch, _, rfl, _⟩ := execTransfer_spec ht
    exact Or.inl rfl
  | hook snd funds sender amt msg =>
    obtain ⟨m, s, out, _, _, ht, rfl, _⟩ := exec_hook_spec h
    obtain ⟨ch, _, rfl, _⟩ := execTransfer_spec ht
    exact Or.inl rfl
  | allow snd c g =>
    simp only [World.exec] at h
    simp at h
    obtain ⟨s, hs, rfl, rfl⟩ := h
    simp [execAllow] at hs
    obtain ⟨_, _, _, rfl⟩ := hs
    exact Or.inr ⟨_, _, rfl⟩
  | updateAdmin snd a =>
    simp only [World.exec] at h
    simp at h
    obtain ⟨s, hs, rfl, rfl⟩ := h
    simp [execUpdateAdmin] at hs
    obtain ⟨_, _, rfl⟩ := hs
    exact Or.inl rfl
  | migrate g =>
    exact Or.inl (migrate_allow (exec_migrate_frame h).1)
  | recv p rv tv f =>
    rcases exec_recv_cases h with ⟨_, rfl, _⟩ | ⟨s1, sub, hd, _, hc⟩
    · exact Or.inl rfl
    · obtain ⟨amt, d, ch, _, _, _, rfl, _⟩ := doReceive_spec hd
      rcases hc with ⟨hp, _⟩ | ⟨_, _, ra, ch', _, _, rfl⟩
      · rw [(payout_frame hp).1]; exact Or.inl rfl
      · exact Or.inl rfl
  | ack chan data ackOk sv tv f =>
    rcases exec_ack_cases h with ⟨_, rfl, _⟩ | ⟨_, s1, sub, hf, _, hc⟩
    · exact Or.inl rfl
    · obtain ⟨p, ch, _, _, rfl, _⟩ := onPacketFailure_spec hf
      rcases hc with ⟨hp, _⟩ | ⟨_, rfl, _⟩
      · rw [(payout_frame hp).1]; exact Or.inl rfl
      · exact Or.inl rfl
  | timeout chan data sv tv f =>
    obtain ⟨s1, sub, hf, _, hc⟩ := exec_timeout_cases h
    obtain ⟨p, ch, _, _, rfl, _⟩ := onPacketFailure_spec hf
    rcases hc with ⟨hp, _⟩ | ⟨_, rfl, _⟩
    · rw [(payout_frame hp).1]; exact Or.inl rfl
    · exact Or.inl rfl

theorem step_nodup {w : World} (blk : Block) (op : Op) (hn : AMap.NodupKeys w.st.allow) :
    AMap.NodupKeys (w.step blk op).st.allow := by
  unfold World.step
  split
  · rename_i w' o h
    rcases exec_allow_cases h with e | ⟨k, v, e⟩
    · rw [e]; exact hn
    · rw [e]; exact AMap.nodup_set hn
  · exact hn

/-- Every history preserves the invariant. -/
theorem run_nodup (ops : List (Block × Op)) {w : World} (hn : AMap.NodupKeys w.st.allow) :
    AMap.NodupKeys (ops.foldl (fun w o => w.step o.1 o.2) w).st.allow := by
  induction ops generalizing w with
  | nil => exact hn
  | cons op rest ih => exact ih (step_nodup _ _ hn)

end CwPlus.Ics20
