import CwPlus.Lemmas.Cw3Flex
import CwPlus.Lemmas.Cw3Status
/-!
# cw3-flex: histories with non-decreasing blocks, block-indexed invariants

* `execute_coreStep` — every successful flex handler call is one `CoreStep` of the shared core,
* `ReachableAt ext fuel w b` — `w` is reached from an accepted instantiation by a history (transactions on
  the multisig, its group and the deposit token) whose blocks (height and time) never go back; `b` is the
  block of the last transaction,
* `ReachableFrom ext fuel w0 b1 w b` — `w` is reached from `w0` by a further such history starting at or
  after `b1`,
* `reachableAt_inv`, `reachableFrom_inv` — block-indexed predicates on the multisig state that are monotone
  in the block and preserved by every handler call hold along such histories.
-/
namespace CwPlus.Cw3Flex
open CwPlus CwPlus.Cw3 CwPlus.Cw3Core CwPlus.Props

theorem execute_coreStep {s s' : State} {g : Cw4Group.State} {self : Addr} {blk : Block} {snd : Addr} {funds : List Coin}
    {m : ExecMsg} {out : List Out} (h : execute s g self blk snd funds m = .ok (s', out)) : CoreStep blk s.core s'.core := by
  obtain ⟨_, hc⟩ := execute_cases h
  rcases hc with ⟨t, d, msgs, latest, w, total, id, _, _, _, _, _, hp⟩ | ⟨id, v, _, _, hv⟩ | ⟨id, p, msgs, _, _, he, _⟩ |
    ⟨id, p, _, _, hcl, _⟩ | ⟨_, _, rfl, _⟩
  · exact CoreStep.propose _ _ _ _ _ _ _ _ _ _ _ hp
  · exact CoreStep.vote _ _ _ _ hv
  · exact CoreStep.execute _ _ _ he
  · exact CoreStep.close _ hcl
  · exact CoreStep.same rfl

theorem instantiate_core {m : InstMsg} {g : Option Cw4Group.State} {s : State} (h : instantiate m g = .ok s) :
    s.core = Core.empty := by
  simp only [instantiate, Res.bind_ok] at h
  obtain ⟨_, _, _, _, _, _, _, _, h⟩ := h
  simp at h; subst h; rfl

/-- Worlds reached by a history whose blocks never go back; the last argument is the block of the last
transaction (any block for the freshly instantiated world). -/
inductive ReachableAt (ext : Ext) (fuel : Nat) : World → Block → Prop
  | init {m : InstMsg} {s : State} (g : Cw4Group.State) (t : Cw20.State) (bank : AMap (Addr × String) Nat)
      (self groupAddr tokenAddr : Addr) (h0 : Nat) (b : Block) :
      instantiate m (some g) = .ok s → ReachableAt ext fuel (World.init s g t bank self groupAddr tokenAddr h0) b
  | step {w : World} {b : Block} (op : Op) : ReachableAt ext fuel w b → C04.later b op.blk →
      ReachableAt ext fuel (step ext fuel w op) op.blk

theorem ReachableAt.reachable {ext : Ext} {fuel : Nat} {w : World} {b : Block} (h : ReachableAt ext fuel w b) :
    Reachable ext fuel w := by
  induction h with
  | init g t bank self ga ta h0 b hi => exact ⟨_, _, g, t, bank, self, ga, ta, h0, [], hi, rfl⟩
  | step op _ _ ih => exact reachable_run ih [op]

/-- `w` is reached from `w0` by a further history whose first block is at or after `b1` and whose blocks
never go back; the last argument is the block of the last transaction (`b1` if there is none). -/
inductive ReachableFrom (ext : Ext) (fuel : Nat) (w0 : World) (b1 : Block) : World → Block → Prop
  | refl : ReachableFrom ext fuel w0 b1 w0 b1
  | step {w : World} {b : Block} (op : Op) : ReachableFrom ext fuel w0 b1 w b → C04.later b op.blk →
      ReachableFrom ext fuel w0 b1 (step ext fuel w op) op.blk

theorem ReachableFrom.le {ext : Ext} {fuel : Nat} {w0 w : World} {b1 b : Block} (h : ReachableFrom ext fuel w0 b1 w b) :
    C04.later b1 b := by
  induction h with
  | refl => exact later_refl_blk _
  | step op _ hb ih => exact later_trans_blk ih hb

/-- a further history of a reachable world leads to a reachable world -/
theorem Reachable.extend {ext : Ext} {fuel : Nat} {w0 w : World} {b1 b : Block} (hr : Reachable ext fuel w0)
    (hf : ReachableFrom ext fuel w0 b1 w b) : Reachable ext fuel w := by
  induction hf with
  | refl => exact hr
  | step op _ _ ih => exact reachable_run ih [op]

/-- one step of a history preserves a predicate on the multisig state that every handler call at that
block preserves -/
theorem step_state_at (ext : Ext) (fuel : Nat) (P : State → Prop) (w : World) (op : Op)
    (hstep : ∀ s g self snd funds m s' out, P s → execute s g self op.blk snd funds m = .ok (s', out) → P s')
    (hq : P w.flex) : P (step ext fuel w op).flex := by
  unfold step
  split
  · rename_i w' htx
    exact tx_inv ext (fun w => P w.flex) op.blk
      (fun w snd funds em s' out hq he => hstep w.flex w.group w.self snd funds em s' out hq he)
      (fun _ _ _ _ _ hq _ => hq) (fun _ _ hq => hq) (fun _ _ hq => hq) hq htx
  · exact hq

theorem reachableFrom_inv (P : Block → State → Prop)
    (hmono : ∀ b b2 s, C04.later b b2 → P b s → P b2 s)
    (hstep : ∀ b s g self snd funds m s' out, P b s → execute s g self b snd funds m = .ok (s', out) → P b s')
    {ext : Ext} {fuel : Nat} {w0 w : World} {b1 b : Block} (h0 : P b1 w0.flex) (hf : ReachableFrom ext fuel w0 b1 w b) :
    P b w.flex := by
  induction hf with
  | refl => exact h0
  | @step w b op _ hb ih =>
    exact step_state_at ext fuel (P op.blk) w op (fun s g self snd funds m s' out => hstep op.blk s g self snd funds m s' out)
      (hmono _ _ _ hb ih)

theorem reachableAt_inv (P : Block → State → Prop)
    (hmono : ∀ b b2 s, C04.later b b2 → P b s → P b2 s)
    (hstep : ∀ b s g self snd funds m s' out, P b s → execute s g self b snd funds m = .ok (s', out) → P b s')
    (hinit : ∀ m g s b, instantiate m (some g) = .ok s → P b s)
    {ext : Ext} {fuel : Nat} {w : World} {b : Block} (h : ReachableAt ext fuel w b) : P b w.flex := by
  induction h with
  | init g t bank self ga ta h0 b hi => exact hinit _ g _ b hi
  | @step w b op _ hb ih =>
    exact step_state_at ext fuel (P op.blk) w op (fun s g self snd funds m s' out => hstep op.blk s g self snd funds m s' out)
      (hmono _ _ _ hb ih)

/-- In every reachable world (any history, blocks in any order) a proposal stored Open and not expired at a
block is reported Open at that block. -/
theorem reachable_openOk {ext : Ext} {fuel : Nat} {w : World} (hr : Reachable ext fuel w) :
    AllP (fun _ p => ∀ b, OpenOk b p) w.flex.core := by
  obtain ⟨m, s, g, t, bank, self, ga, ta, h0, ops, hi, rfl⟩ := hr
  have := run_state_inv ext (fun s => Inv s ∧ AllP (fun _ p => ∀ b, OpenOk b p) s.core)
    (fun g self blk s snd funds m s' out ⟨hi, ha⟩ he =>
      ⟨execute_inv hi he, allP_step hi.wf (fun _ _ _ hold hs => openOk_all_step hold hs) ha (execute_coreStep he)⟩)
    fuel ops (World.init s g t bank self ga ta h0) ⟨instantiate_inv hi, by
      show AllP _ s.core
      rw [instantiate_core hi]; exact allP_empty _⟩
  exact this.2

end CwPlus.Cw3Flex
