import CwPlus.Base.NativeBalance
/-!
# `NativeBalance`: when does a subtraction succeed?

`Base/NativeBalance.lean` proves what a *successful* `subCoin` / `subCoins` does to the per-denom totals.
This file adds the converse ("liveness"): on a balance with unique denoms a list of positive coins can be
subtracted exactly when, denom by denom, the coins together do not exceed what the balance holds
(`subCoins_isOk_iff`), and a monotonicity statement (`subCoins_mono`): what can be subtracted from a balance
can be subtracted from every pointwise larger one.  Core only.
-/
namespace CwPlus.NativeBalance

/-! ### `find?` after the two in-place updates -/

theorem find?_setFirst (b : NativeBalance) (d : String) (v : Nat) (d2 : String) :
    find? (setFirst b d v) d2 = if d = d2 then (find? b d).map (fun _ => v) else find? b d2 := by
  fun_induction setFirst b d v <;> grind [find?]

theorem find?_removeFirst_ne (b : NativeBalance) {d d2 : String} (h : d ≠ d2) :
    find? (removeFirst b d) d2 = find? b d2 := by
  fun_induction removeFirst b d <;> grind [find?]

theorem find?_removeFirst_self {b : NativeBalance} (hu : UniqueDenoms b) (d : String) :
    find? (removeFirst b d) d = none := by
  unfold UniqueDenoms at hu
  induction b with
  | nil => rfl
  | cons c rest ih =>
    obtain ⟨d', a⟩ := c
    simp only [denoms, List.map_cons, List.nodup_cons] at hu
    by_cases e : d' = d
    · subst e; simp only [removeFirst, if_true]; exact find?_none_iff.mpr hu.1
    · simp only [removeFirst, e, if_false, find?]; exact ih hu.2

/-- A positive total means the denom is present. -/
theorem find?_isSome_of_total_pos {b : NativeBalance} {d : String} (h : 0 < total b d) : ∃ a, find? b d = some a := by
  cases hf : find? b d with
  | some a => exact ⟨a, rfl⟩
  | none => rw [find?_none_total hf] at h; omega

/-! ### one coin -/

/-- `Sub<Coin>` succeeds exactly when the denom is present and its first coin covers the amount. -/
theorem subCoin_isOk_iff_find (b : NativeBalance) (c : Coin) :
    (subCoin b c).isOk = true ↔ ∃ held, find? b c.1 = some held ∧ c.2 ≤ held := by
  unfold subCoin
  cases hf : find? b c.1 with
  | none => simp [Res.isOk]
  | some held =>
    by_cases hle : c.2 ≤ held
    · by_cases hz : held - c.2 = 0 <;> simp [hle, hz, Res.isOk]
    · simp [hle, Res.isOk]

/-- On a balance with unique denoms, a *positive* coin can be subtracted exactly when the balance holds at
least that much of its denom.  (A zero coin of an absent denom fails with `sub.no_denom`: positivity cannot be
dropped.) -/
theorem subCoin_isOk_iff {b : NativeBalance} (hu : UniqueDenoms b) {c : Coin} (hpos : 0 < c.2) :
    (subCoin b c).isOk = true ↔ c.2 ≤ total b c.1 := by
  rw [subCoin_isOk_iff_find, total_eq_find?_of_unique hu]
  cases hf : find? b c.1 with
  | none => simp; omega
  | some held => simp

theorem isOk_iff_exists {α : Type} (r : Res α) : r.isOk = true ↔ ∃ a, r = .ok a := by
  cases r <;> simp [Res.isOk]

theorem isOk_false_iff_exists {α : Type} (r : Res α) : r.isOk = false ↔ ∃ e, r = .error e := by
  cases r <;> simp [Res.isOk]

/-! ### a list of coins -/

/-- **Liveness of `Sub<Vec<Coin>>`.**  On a balance with unique denoms a list of positive coins can be
subtracted exactly when, for every denom, the coins of that denom together do not exceed what the balance
holds.  (`total_subCoins` is the "only if" direction plus the exact remainder.) -/
theorem subCoins_isOk_iff {b : NativeBalance} (hu : UniqueDenoms b) {cs : List Coin} (hpos : ∀ c ∈ cs, 0 < c.2) :
    (subCoins b cs).isOk = true ↔ ∀ d, coinsTotal cs d ≤ total b d := by
  induction cs generalizing b with
  | nil => simp [subCoins, Res.isOk]
  | cons c rest ih =>
    have hc : 0 < c.2 := hpos c (by simp)
    have hrest : ∀ c ∈ rest, 0 < c.2 := fun x hx => hpos x (by simp [hx])
    constructor
    · intro h
      obtain ⟨b', hb'⟩ := (isOk_iff_exists _).mp h
      intro d
      have := total_subCoins hb' d
      omega
    · intro h
      have h1 : (subCoin b c).isOk = true := by
        rw [subCoin_isOk_iff hu hc]
        have := h c.1
        simp only [coinsTotal, total_cons, if_true] at this
        omega
      obtain ⟨b1, hb1⟩ := (isOk_iff_exists _).mp h1
      have h2 : (subCoins b1 rest).isOk = true := by
        rw [ih (unique_subCoin hu hb1) hrest]
        intro d
        have e1 := total_subCoin hb1 d
        have e2 := h d
        simp only [coinsTotal, total_cons] at e2 ⊢
        omega
      simp only [subCoins, hb1, bind, Except.bind]
      exact h2

/-- The same as a statement about failure: the subtraction fails exactly when some denom is overdrawn. -/
theorem subCoins_error_iff {b : NativeBalance} (hu : UniqueDenoms b) {cs : List Coin} (hpos : ∀ c ∈ cs, 0 < c.2) :
    (∃ e, subCoins b cs = .error e) ↔ ∃ d, total b d < coinsTotal cs d := by
  rw [← isOk_false_iff_exists]
  have := subCoins_isOk_iff hu hpos
  cases hr : (subCoins b cs).isOk
  · rw [hr] at this
    simp only [Bool.false_eq_true, false_iff, Classical.not_forall, Nat.not_le] at this
    simpa using this
  · rw [hr] at this
    simp only [true_iff] at this
    simp only [Bool.true_eq_false, false_iff, not_exists, Nat.not_lt]
    exact this

/-! ### monotonicity in the balance -/

/-- `Below b' b`: every coin `find` sees in `b'` is seen in `b` with at least that amount. -/
def Below (b' b : NativeBalance) : Prop := ∀ d x, find? b' d = some x → ∃ y, find? b d = some y ∧ x ≤ y

theorem Below.refl (b : NativeBalance) : Below b b := fun _ x h => ⟨x, h, Nat.le_refl _⟩

theorem Below.trans {a b c : NativeBalance} (h1 : Below a b) (h2 : Below b c) : Below a c := by
  intro d x hx
  obtain ⟨y, hy, hxy⟩ := h1 d x hx
  obtain ⟨z, hz, hyz⟩ := h2 d y hy
  exact ⟨z, hz, Nat.le_trans hxy hyz⟩

/-- What a successful `subCoin` did, in terms of `find?` (unique denoms). -/
theorem find?_subCoin {b b1 : NativeBalance} (hu : UniqueDenoms b) {c : Coin} (h : subCoin b c = .ok b1) (d : String) :
    ∃ held, find? b c.1 = some held ∧ c.2 ≤ held ∧
      find? b1 d = if c.1 = d then (if held - c.2 = 0 then none else some (held - c.2)) else find? b d := by
  unfold subCoin at h
  split at h
  · simp at h
  · rename_i held hf
    refine ⟨held, hf, ?_⟩
    split at h
    · rename_i hle
      refine ⟨hle, ?_⟩
      split at h
      · rename_i hz
        simp at h; subst h
        by_cases e : c.1 = d
        · subst e; simp [hz, find?_removeFirst_self hu]
        · simp [e, find?_removeFirst_ne b e]
      · rename_i hz
        simp at h; subst h
        rw [find?_setFirst]
        by_cases e : c.1 = d
        · subst e; simp [hz, hf]
        · simp [e]
    · simp at h

/-- Subtracting only lowers. -/
theorem subCoin_below {b b1 : NativeBalance} (hu : UniqueDenoms b) {c : Coin} (h : subCoin b c = .ok b1) : Below b1 b := by
  intro d x hx
  obtain ⟨held, hf, hle, hd⟩ := find?_subCoin hu h d
  rw [hd] at hx
  by_cases e : c.1 = d
  · subst e
    simp only [if_true] at hx
    split at hx
    · cases hx
    · cases hx; exact ⟨held, hf, by omega⟩
  · simp only [e, if_false] at hx; exact ⟨x, hx, Nat.le_refl _⟩

theorem subCoins_below {b b1 : NativeBalance} (hu : UniqueDenoms b) {cs : List Coin} (h : subCoins b cs = .ok b1) :
    Below b1 b := by
  induction cs generalizing b with
  | nil => simp [subCoins] at h; subst h; exact Below.refl _
  | cons c rest ih =>
    simp [subCoins] at h
    obtain ⟨b2, h1, h2⟩ := h
    exact (ih (unique_subCoin hu h1) h2).trans (subCoin_below hu h1)

/-- One coin, monotone: a coin that can be taken from `b'` can be taken from every `b` above it, and the
remainders are again ordered. -/
theorem subCoin_mono {b' b b'1 : NativeBalance} (hu' : UniqueDenoms b') (hu : UniqueDenoms b) (hb : Below b' b)
    {c : Coin} (h : subCoin b' c = .ok b'1) : ∃ b1, subCoin b c = .ok b1 ∧ Below b'1 b1 := by
  obtain ⟨x, hx, hcx, _⟩ := find?_subCoin hu' h c.1
  obtain ⟨y, hy, hxy⟩ := hb c.1 x hx
  have hok : (subCoin b c).isOk = true := (subCoin_isOk_iff_find b c).mpr ⟨y, hy, by omega⟩
  obtain ⟨b1, hb1⟩ := (isOk_iff_exists _).mp hok
  refine ⟨b1, hb1, ?_⟩
  intro d z hz
  obtain ⟨x', hx', _, hd'⟩ := find?_subCoin hu' h d
  obtain ⟨y', hy', _, hd⟩ := find?_subCoin hu hb1 d
  rw [hx] at hx'; cases hx'
  rw [hy] at hy'; cases hy'
  rw [hd'] at hz
  rw [hd]
  by_cases e : c.1 = d
  · subst e
    simp only [if_true] at hz ⊢
    split at hz
    · cases hz
    · cases hz
      have : ¬ (y - c.2 = 0) := by omega
      simp only [this, if_false]
      exact ⟨_, rfl, by omega⟩
  · simp only [e, if_false] at hz ⊢
    exact hb d z hz

/-- **Monotonicity of `Sub<Vec<Coin>>`** (unique denoms): what can be subtracted from `b'` can be subtracted
from every balance above it.  Without unique denoms this fails: from `[(a,1),(a,5)]` one can take `a1` and then
`a5`, but not `a5` at once. -/
theorem subCoins_mono {b' b : NativeBalance} (hu' : UniqueDenoms b') (hu : UniqueDenoms b) (hb : Below b' b)
    {cs : List Coin} (h : (subCoins b' cs).isOk = true) : (subCoins b cs).isOk = true := by
  induction cs generalizing b' b with
  | nil => simp [subCoins, Res.isOk]
  | cons c rest ih =>
    obtain ⟨r, hr⟩ := (isOk_iff_exists _).mp h
    simp [subCoins] at hr
    obtain ⟨b'1, h1, h2⟩ := hr
    obtain ⟨b1, hb1, hbel⟩ := subCoin_mono hu' hu hb h1
    simp only [subCoins, hb1, bind, Except.bind]
    exact ih (unique_subCoin hu' h1) (unique_subCoin hu hb1) hbel (by rw [h2]; rfl)

/-- the duplicate-denom counterexample to monotonicity -/
example : (subCoins [("a", 1), ("a", 5)] [("a", 1)]).toOption = some [("a", 5)]
    ∧ (subCoins [("a", 5)] [("a", 5)]).isOk = true
    ∧ (subCoins [("a", 1), ("a", 5)] [("a", 5)]).isOk = false := by decide

/-- positivity cannot be dropped from `subCoins_isOk_iff`: a zero coin of an absent denom fails although no
denom is overdrawn -/
example : (subCoins [("a", 1)] [("b", 0)]).isOk = false ∧ ∀ d, coinsTotal [("b", 0)] d ≤ total [("a", 1)] d := by
  refine ⟨by decide, fun d => ?_⟩
  simp [coinsTotal, total]

example : (subCoins [("ua", 10), ("ub", 5)] [("ua", 4), ("ub", 5), ("ua", 6)]).toOption = some [] := by decide

end CwPlus.NativeBalance
