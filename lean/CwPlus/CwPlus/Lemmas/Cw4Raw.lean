import CwPlus.Lemmas.RawStore
import CwPlus.Model.Cw4Raw
/-!
# Reading the raw image of a cw4 state, section by section

`InNs ns k`: the key `k` lies in the key space of the map namespace `ns`.  Every section of `encode` lies in one
namespace (or is a single item); keys of different namespaces differ (`Lemmas/RawStore.lean`), so a read of a
published key only ever sees its own section.  Core only.
-/
namespace CwPlus.RawStore

/-- `k` is a key of the `Map` with namespace `ns` (any key parts). -/
def InNs (ns k : Bytes) : Prop := ∃ ps last, k = mapKey ns ps last

theorem inNs_mapKey (ns : Bytes) (ps : List Bytes) (last : Bytes) : InNs ns (mapKey ns ps last) := ⟨ps, last, rfl⟩

/-- Keys of two different map namespaces never coincide. -/
theorem not_inNs_mapKey {ns ns' : Bytes} (h1 : ns.length ≤ 0xFFFF) (h2 : ns'.length ≤ 0xFFFF) (hne : ns ≠ ns')
    (ps : List Bytes) (last : Bytes) : ¬ InNs ns (mapKey ns' ps last) := by
  rintro ⟨qs, l, h⟩
  exact hne (mapKey_ns_inj h2 h1 h).1.symm

/-- An item whose namespace does not start with the length-prefixed map namespace is not a key of the map. -/
theorem not_inNs_itemKey {ns ins : Bytes} (h : ¬ lp ns <+: ins) : ¬ InNs ns (itemKey ins) := by
  rintro ⟨ps, l, hk⟩
  apply h
  rw [mapKey_eq] at hk
  exact ⟨nsKey ps l, hk.symm⟩

theorem get?_none_of_inNs {st : Store} {ns k : Bytes} (hs : ∀ e ∈ st, InNs ns e.1) (hk : ¬ InNs ns k) :
    get? st k = none :=
  get?_eq_none fun e he heq => hk (heq ▸ hs e he)

/-! ## The cw4 namespaces -/

theorem ns_len_ok : ∀ ns ∈ NS.maps, ns.length ≤ 0xFFFF := by decide

theorem ns_maps_nodup : NS.maps.Nodup := by decide

theorem ns_items_nodup : NS.items.Nodup := by decide

/-- No cw4 item namespace starts with a length-prefixed cw4 map namespace. -/
theorem ns_items_vs_maps : ∀ ins ∈ NS.items, ∀ ns ∈ NS.maps, ¬ lp ns <+: ins := by decide

/-- `cw4::member_key(addr)` is the key cw-storage-plus uses for `MEMBERS` (the `as u8` of the namespace length
loses nothing: the namespace has 7 bytes). -/
theorem memberKey_eq_primary (addr : String) : memberKey addr = membersPrimaryKey addr := by
  have h : NS.members.length = 7 := by decide
  simp [memberKey, membersPrimaryKey, mapKey, nsKey, lp, len2, h]

theorem membersPrimaryKey_inj {a b : String} (h : membersPrimaryKey a = membersPrimaryKey b) : a = b := by
  have := (mapKey_ns_inj (by decide) (by decide) h).2
  simp [nsKey] at this
  exact strBytes_inj this

theorem stakeKey_inj {a b : String} (h : stakeKey a = stakeKey b) : a = b := by
  have := (mapKey_ns_inj (by decide) (by decide) h).2
  simp [nsKey] at this
  exact strBytes_inj this

theorem claimsKey_inj {a b : String} (h : claimsKey a = claimsKey b) : a = b := by
  have := (mapKey_ns_inj (by decide) (by decide) h).2
  simp [nsKey] at this
  exact strBytes_inj this

end CwPlus.RawStore

namespace CwPlus.Cw4Raw
open CwPlus CwPlus.Snapshot CwPlus.RawStore

theorem encodeMembers_inNs (m : SnapMap Addr Nat) : ∀ e ∈ encodeMembers m, InNs NS.members e.1 := by
  intro e he
  simp [encodeMembers] at he
  obtain ⟨a, w, _, rfl⟩ := he
  exact inNs_mapKey _ _ _

theorem encodeMembersLog_inNs (m : SnapMap Addr Nat) : ∀ e ∈ encodeMembersLog m, InNs NS.membersChangelog e.1 := by
  intro e he
  simp [encodeMembersLog] at he
  obtain ⟨a, l, _, h, o, _, rfl⟩ := he
  exact inNs_mapKey _ _ _

theorem encodeTotalLog_inNs (l : Log Nat) : ∀ e ∈ encodeTotalLog l, InNs NS.totalChangelog e.1 := by
  intro e he
  simp [encodeTotalLog] at he
  obtain ⟨h, o, _, rfl⟩ := he
  exact inNs_mapKey _ _ _

theorem encodeHooks_keys (hooks : List Addr) : ∀ e ∈ encodeHooks hooks, e.1 = itemKey NS.hooks := by
  intro e he
  unfold encodeHooks at he
  split at he
  · simp at he
  · simp at he; subst he; rfl

/-- Reading a member key from the primary section of `MEMBERS` is reading the model's current map. -/
theorem get?_encodeMembers (m : SnapMap Addr Nat) (a : Addr) :
    get? (encodeMembers m) (membersPrimaryKey a) = (m.get? a).map fun w => Val.bytes (natDigits w) :=
  get?_map_inj membersPrimaryKey (fun w => Val.bytes (natDigits w)) (fun _ _ h => membersPrimaryKey_inj h) m.cur a

/-- The number of entries of a store under one key. -/
def count (st : Store) (k : Bytes) : Nat := (st.filter fun e => e.1 = k).length

/-- Counting distributes over sections. -/
theorem count_append (a b : Store) (k : Bytes) : count (a ++ b) k = count a k + count b k := by
  simp [count, List.filter_append]

/-- No entry under a key that no entry has. -/
theorem count_eq_zero {st : Store} {k : Bytes} (h : ∀ e ∈ st, e.1 ≠ k) : count st k = 0 := by
  simp only [count, List.length_eq_zero_iff, List.filter_eq_nil_iff]
  intro e he
  simpa using h e he

/-- A section of another namespace holds no entry under the key. -/
theorem count_zero_of_inNs {st : Store} {ns k : Bytes} (hs : ∀ e ∈ st, InNs ns e.1) (hk : ¬ InNs ns k) :
    count st k = 0 :=
  count_eq_zero fun e he heq => hk (heq ▸ hs e he)

/-- One entry per member in the model ⇒ at most one entry per member key in the primary section. -/
theorem count_encodeMembers (m : SnapMap Addr Nat) (hn : AMap.NodupKeys m.cur) (addr : String) :
    count (encodeMembers m) (membersPrimaryKey addr) ≤ 1 := by
  unfold encodeMembers
  generalize m.cur = l at hn
  induction l with
  | nil => simp [count]
  | cons p rest ih =>
    obtain ⟨a, w⟩ := p
    have hn' : AMap.NodupKeys rest := by
      unfold AMap.NodupKeys AMap.keys at *; simp at hn; exact hn.2
    have hnot : a ∉ AMap.keys rest := by
      unfold AMap.NodupKeys AMap.keys at hn; simp at hn; simpa [AMap.keys] using hn.1
    by_cases h : a = addr
    · subst h
      have : count (rest.map fun p => (membersPrimaryKey p.1, Val.bytes (natDigits p.2))) (membersPrimaryKey a) = 0 :=
        count_eq_zero fun e he heq => by
          simp at he
          obtain ⟨a', w', hmem, rfl⟩ := he
          have := membersPrimaryKey_inj heq
          subst this
          exact hnot (by simp [AMap.keys]; exact ⟨w', hmem⟩)
      have hc : count ((membersPrimaryKey a, Val.bytes (natDigits w)) ::
          rest.map fun p => (membersPrimaryKey p.1, Val.bytes (natDigits p.2))) (membersPrimaryKey a)
          = 1 + count (rest.map fun p => (membersPrimaryKey p.1, Val.bytes (natDigits p.2))) (membersPrimaryKey a) := by
        simp [count]; omega
      rw [List.map_cons, hc, this]
      exact Nat.le_refl _
    · have hne : membersPrimaryKey a ≠ membersPrimaryKey addr := fun e => h (membersPrimaryKey_inj e)
      have hc : count ((membersPrimaryKey a, Val.bytes (natDigits w)) ::
          rest.map fun p => (membersPrimaryKey p.1, Val.bytes (natDigits p.2))) (membersPrimaryKey addr)
          = count (rest.map fun p => (membersPrimaryKey p.1, Val.bytes (natDigits p.2))) (membersPrimaryKey addr) := by
        simp [count, hne]
      rw [List.map_cons, hc]
      exact ih hn'

end CwPlus.Cw4Raw

namespace CwPlus.Cw4Stake
open CwPlus CwPlus.RawStore

theorem encodeStake_inNs (m : AMap Addr Nat) : ∀ e ∈ encodeStake m, InNs NS.stake e.1 := by
  intro e he
  simp [encodeStake] at he
  obtain ⟨a, w, _, rfl⟩ := he
  exact inNs_mapKey _ _ _

theorem encodeClaims_inNs (m : AMap Addr (List Claim)) : ∀ e ∈ encodeClaims m, InNs NS.claims e.1 := by
  intro e he
  simp [encodeClaims] at he
  obtain ⟨a, w, _, rfl⟩ := he
  exact inNs_mapKey _ _ _

end CwPlus.Cw4Stake
