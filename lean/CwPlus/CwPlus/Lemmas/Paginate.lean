import CwPlus.Base.Paginate
/-!
# Generic pagination theorems (core only)

Everything a list query of the suite needs, proved once for an arbitrary key
type `κ` with a strict total order given as a Boolean `lt`:

* `effLimit_*`, `page_length_le`, `page_zero` — size bounds (default 10, max 30);
* `page_prefix`, `afterCursor_suffix`, `page_infix`, `page_sorted`, `page_gt_cursor` —
  a page is a contiguous part of the sorted listing, in order, strictly after the cursor;
* `fetchAll_from`, `fetchAll_complete` — the client loop returns every item once, in order;
* `fetchLoop_complete`, `fetchLoop_sortedEntries` — the same for an arbitrary query function
  that *is* `page … (sortedEntries …)` up to a projection (the form used by the models);
* `sortedEntries_perm/sorted/get?` — the storage iteration order;
* `strictTotal_strLt`, `strictTotal_natLt`, `StrictTotal.flip` — instances;
* descending (`pageDesc`, `fetchAllDesc`) and filtered variants.
-/
namespace CwPlus.Paginate
open CwPlus

variable {κ ν : Type}

/-- `lt` is a strict total order. -/
structure StrictTotal (lt : κ → κ → Bool) : Prop where
  irrefl : ∀ a, lt a a = false
  trans : ∀ a b c, lt a b = true → lt b c = true → lt a c = true
  total : ∀ a b, a ≠ b → lt a b = true ∨ lt b a = true

/-- Strictly ascending in the key. -/
def Sorted (lt : κ → κ → Bool) (xs : List (κ × ν)) : Prop :=
  xs.Pairwise (fun a b => lt a.1 b.1 = true)

namespace StrictTotal
variable {lt : κ → κ → Bool}

theorem asymm (h : StrictTotal lt) {a b : κ} (hab : lt a b = true) : lt b a = false := by
  cases hba : lt b a with
  | false => rfl
  | true => have := h.trans a b a hab hba; rw [h.irrefl] at this; cases this

theorem ne (h : StrictTotal lt) {a b : κ} (hab : lt a b = true) : a ≠ b := by
  intro e; subst e; rw [h.irrefl] at hab; cases hab

/-- The reversed order is again a strict total order. -/
theorem flip (h : StrictTotal lt) : StrictTotal (fun a b => lt b a) where
  irrefl := h.irrefl
  trans := fun a b c hab hbc => h.trans c b a hbc hab
  total := fun a b hne => (h.total a b hne).symm

end StrictTotal

/-! ## 1. Size bounds -/

@[simp] theorem effLimit_none : effLimit none = 10 := rfl

theorem effLimit_some (n : Nat) : effLimit (some n) = min n 30 := rfl

theorem effLimit_le_max (limit : Option Nat) : effLimit limit ≤ 30 := by
  unfold effLimit MAX_LIMIT; omega

theorem effLimit_le_requested (n : Nat) : effLimit (some n) ≤ n := by
  unfold effLimit MAX_LIMIT; simp; omega

/-- The effective limit is positive unless the caller asked for `limit = 0`. -/
theorem effLimit_pos {limit : Option Nat} (h : limit ≠ some 0) : 1 ≤ effLimit limit := by
  cases limit with
  | none => simp
  | some n =>
    have : n ≠ 0 := fun e => h (by rw [e])
    rw [effLimit_some]; omega

theorem effLimit_pos_iff {limit : Option Nat} : 1 ≤ effLimit limit ↔ limit ≠ some 0 := by
  refine ⟨?_, effLimit_pos⟩
  intro h e; subst e; simp [effLimit_some] at h

theorem page_length_le (lt : κ → κ → Bool) (xs : List (κ × ν)) (after : Option κ) (limit : Option Nat) :
    (page lt xs after limit).length ≤ effLimit limit := by
  unfold page; rw [List.length_take]; omega

theorem page_length_le_max (lt : κ → κ → Bool) (xs : List (κ × ν)) (after : Option κ) (limit : Option Nat) :
    (page lt xs after limit).length ≤ 30 :=
  Nat.le_trans (page_length_le lt xs after limit) (effLimit_le_max limit)

theorem page_length_le_requested (lt : κ → κ → Bool) (xs : List (κ × ν)) (after : Option κ) (n : Nat) :
    (page lt xs after (some n)).length ≤ n :=
  Nat.le_trans (page_length_le lt xs after (some n)) (effLimit_le_requested n)

theorem page_length_le_default (lt : κ → κ → Bool) (xs : List (κ × ν)) (after : Option κ) :
    (page lt xs after none).length ≤ 10 := by
  have := page_length_le lt xs after none; simpa using this

@[simp] theorem page_zero (lt : κ → κ → Bool) (xs : List (κ × ν)) (after : Option κ) :
    page lt xs after (some 0) = [] := by
  simp [page, effLimit_some]

/-- A page is full whenever enough items remain: the limit is reached, not merely respected. -/
theorem page_length_eq (lt : κ → κ → Bool) (xs : List (κ × ν)) (after : Option κ) (limit : Option Nat) :
    (page lt xs after limit).length = min (effLimit limit) (afterCursor lt xs after).length := by
  unfold page; rw [List.length_take]

/-! ## 2. A page is a contiguous, ordered part of the listing, strictly after the cursor -/

theorem afterCursor_sublist (lt : κ → κ → Bool) (xs : List (κ × ν)) (after : Option κ) :
    (afterCursor lt xs after).Sublist xs := by
  cases after with
  | none => exact List.Sublist.refl _
  | some c => exact List.filter_sublist

theorem page_prefix (lt : κ → κ → Bool) (xs : List (κ × ν)) (after : Option κ) (limit : Option Nat) :
    page lt xs after limit <+: afterCursor lt xs after :=
  List.take_prefix _ _

theorem page_sublist (lt : κ → κ → Bool) (xs : List (κ × ν)) (after : Option κ) (limit : Option Nat) :
    (page lt xs after limit).Sublist xs :=
  (page_prefix lt xs after limit).sublist.trans (afterCursor_sublist lt xs after)

theorem page_sorted {lt : κ → κ → Bool} {xs : List (κ × ν)} (h : Sorted lt xs) (after : Option κ) (limit : Option Nat) :
    Sorted lt (page lt xs after limit) :=
  List.Pairwise.sublist (page_sublist lt xs after limit) h

/-- Exclusive cursor: every returned key is strictly greater than the cursor. -/
theorem page_gt_cursor (lt : κ → κ → Bool) (xs : List (κ × ν)) (c : κ) (limit : Option Nat) :
    ∀ x ∈ page lt xs (some c) limit, lt c x.1 = true := by
  intro x hx
  have := (page_prefix lt xs (some c) limit).sublist.subset hx
  simp [afterCursor] at this
  exact this.2

/-- On a sorted list the entries after a cursor form a suffix (nothing is skipped in between). -/
theorem filter_gt_suffix {lt : κ → κ → Bool} (ht : StrictTotal lt) (c : κ) :
    ∀ {xs : List (κ × ν)}, Sorted lt xs → xs.filter (fun x => lt c x.1) <:+ xs
  | [], _ => by simp
  | x :: rest, h => by
    have h' := List.pairwise_cons.mp h
    by_cases hc : lt c x.1 = true
    · have : (x :: rest).filter (fun x => lt c x.1) = x :: rest := by
        rw [List.filter_eq_self]
        intro a ha
        rcases List.mem_cons.mp ha with rfl | ha
        · exact hc
        · exact ht.trans _ _ _ hc (h'.1 a ha)
      rw [this]; exact List.suffix_refl _
    · rw [List.filter_cons_of_neg (by simpa using hc)]
      exact (filter_gt_suffix ht c h'.2).trans (List.suffix_cons _ _)

theorem afterCursor_suffix {lt : κ → κ → Bool} (ht : StrictTotal lt) {xs : List (κ × ν)} (h : Sorted lt xs)
    (after : Option κ) : afterCursor lt xs after <:+ xs := by
  cases after with
  | none => exact List.suffix_refl _
  | some c => exact filter_gt_suffix ht c h

/-- A page is a contiguous block of the sorted listing. -/
theorem page_infix {lt : κ → κ → Bool} (ht : StrictTotal lt) {xs : List (κ × ν)} (h : Sorted lt xs)
    (after : Option κ) (limit : Option Nat) : page lt xs after limit <:+: xs :=
  (page_prefix lt xs after limit).isInfix.trans (afterCursor_suffix ht h after).isInfix

/-- Keys of a sorted list are pairwise distinct: "every item exactly once". -/
theorem Sorted.nodupKeys {lt : κ → κ → Bool} (ht : StrictTotal lt) {xs : List (κ × ν)} (h : Sorted lt xs) :
    (xs.map (·.1)).Nodup := by
  unfold List.Nodup
  rw [List.pairwise_map]
  exact List.Pairwise.imp (fun hab => ht.ne hab) h

theorem Sorted.filter {lt : κ → κ → Bool} {xs : List (κ × ν)} (p : κ × ν → Bool) (h : Sorted lt xs) :
    Sorted lt (xs.filter p) :=
  List.Pairwise.filter p h

/-! ## 3. Completeness of the client loop -/

/-- The cursor a client holds after having received the items `pre`: the key of the last one. -/
def cursorOf (pre : List (κ × ν)) : Option κ := pre.getLast?.map (·.1)

@[simp] theorem cursorOf_nil : cursorOf ([] : List (κ × ν)) = none := rfl

theorem cursorOf_append_of_getLast? {pre p : List (κ × ν)} {last : κ × ν} (h : p.getLast? = some last) :
    cursorOf (pre ++ p) = some last.1 := by
  unfold cursorOf
  rw [List.getLast?_append, h]; rfl

/-- With the key of the last element of a prefix as cursor, exactly the rest of the list remains. -/
theorem afterCursor_cursorOf {lt : κ → κ → Bool} (ht : StrictTotal lt) {pre suf : List (κ × ν)}
    (h : Sorted lt (pre ++ suf)) : afterCursor lt (pre ++ suf) (cursorOf pre) = suf := by
  rcases List.eq_nil_or_concat pre with rfl | ⟨ini, l, rfl⟩
  · rfl
  · rw [List.concat_eq_append] at h ⊢
    have hc : cursorOf (ini ++ [l] : List (κ × ν)) = some l.1 := by simp [cursorOf]
    rw [hc]
    simp only [afterCursor]
    obtain ⟨hpre, _, hcross⟩ := List.pairwise_append.mp h
    obtain ⟨_, _, hini⟩ := List.pairwise_append.mp hpre
    rw [List.filter_append]
    have e1 : (ini ++ [l]).filter (fun x => lt l.1 x.1) = [] := by
      rw [List.filter_eq_nil_iff]
      intro a ha
      rcases List.mem_append.mp ha with ha | ha
      · have := ht.asymm (hini a ha l (by simp)); simp [this]
      · simp at ha; subst ha; simp [ht.irrefl]
    have e2 : suf.filter (fun x => lt l.1 x.1) = suf := by
      rw [List.filter_eq_self]
      intro a ha; exact hcross l (by simp) a ha
    rw [e1, e2]; rfl

/-- **Completeness from any cursor obtained from earlier pages**: if the client has received the
prefix `pre` of the sorted listing `pre ++ suf` and continues with the last key as cursor, it
receives exactly `suf` — whatever the page size (≥ 1), provided it is allowed enough requests
(`suf.length + 1` always suffice; more make no difference). -/
theorem fetchAll_from {lt : κ → κ → Bool} (ht : StrictTotal lt) {limit : Option Nat} (hl : 1 ≤ effLimit limit) :
    ∀ (fuel : Nat) (pre suf : List (κ × ν)), Sorted lt (pre ++ suf) → suf.length + 1 ≤ fuel →
      fetchAll lt (pre ++ suf) limit (cursorOf pre) fuel = suf
  | 0, _, _, _, hf => by omega
  | fuel + 1, pre, suf, h, hf => by
    have hp : page lt (pre ++ suf) (cursorOf pre) limit = suf.take (effLimit limit) := by
      unfold page; rw [afterCursor_cursorOf ht h]
    rw [fetchAll]
    simp only [hp]
    cases hlast : (suf.take (effLimit limit)).getLast? with
    | none =>
      have := List.getLast?_eq_none_iff.mp hlast
      rcases List.take_eq_nil_iff.mp this with h0 | h0
      · omega
      · simp [h0]
    | some last =>
      simp only []
      have hne : suf ≠ [] := by rintro rfl; simp at hlast
      have hx : pre ++ suf = (pre ++ suf.take (effLimit limit)) ++ suf.drop (effLimit limit) := by
        rw [List.append_assoc, List.take_append_drop]
      have hlen : (suf.drop (effLimit limit)).length + 1 ≤ fuel := by
        have : 0 < suf.length := List.length_pos_iff.mpr hne
        rw [List.length_drop]; omega
      have ih := fetchAll_from ht hl fuel (pre ++ suf.take (effLimit limit)) (suf.drop (effLimit limit))
        (hx ▸ h) hlen
      rw [cursorOf_append_of_getLast? hlast, ← hx] at ih
      rw [ih, List.take_append_drop]

/-- **Pagination is complete**: starting without cursor and repeatedly requesting pages with the
last returned key as cursor returns the whole sorted listing — every item exactly once, in key
order — and terminates, for every page size except `limit = 0`. -/
theorem fetchAll_complete {lt : κ → κ → Bool} (ht : StrictTotal lt) {xs : List (κ × ν)} (h : Sorted lt xs)
    {limit : Option Nat} (hl : 1 ≤ effLimit limit) {fuel : Nat} (hf : xs.length + 1 ≤ fuel) :
    fetchAll lt xs limit none fuel = xs := by
  have := fetchAll_from ht hl fuel [] xs (by simpa using h) hf
  simpa using this

theorem fetchAll_complete' {lt : κ → κ → Bool} (ht : StrictTotal lt) {xs : List (κ × ν)} (h : Sorted lt xs)
    {limit : Option Nat} (hl : 1 ≤ effLimit limit) :
    fetchAll lt xs limit none (xs.length + 1) = xs :=
  fetchAll_complete ht h hl (Nat.le_refl _)

/-- With `limit = 0` every page is empty and the client gets nothing (the reason for the
hypothesis `1 ≤ effLimit limit` above). -/
theorem fetchAll_zero (lt : κ → κ → Bool) (xs : List (κ × ν)) (c : Option κ) (fuel : Nat) :
    fetchAll lt xs (some 0) c fuel = [] := by
  cases fuel <;> simp [fetchAll]

/-! ### The client loop against an arbitrary query function -/

/-- If a query is `page lt xs · limit` up to a projection `f` of the items that keeps the key
recoverable, the client loop against the query is the projection of `fetchAll`. -/
theorem fetchLoop_eq_fetchAll {α : Type} {lt : κ → κ → Bool} {xs : List (κ × ν)} {limit : Option Nat}
    {q : Option κ → List α} {key : α → κ} {f : κ × ν → α}
    (hq : ∀ c, q c = (page lt xs c limit).map f) (hk : ∀ x, key (f x) = x.1) :
    ∀ (fuel : Nat) (c : Option κ), fetchLoop q key c fuel = (fetchAll lt xs limit c fuel).map f
  | 0, _ => rfl
  | fuel + 1, c => by
    rw [fetchLoop, fetchAll]
    simp only [hq c, List.getLast?_map]
    cases (page lt xs c limit).getLast? with
    | none => rfl
    | some last =>
      simp only [Option.map_some, List.map_append, hk]
      rw [fetchLoop_eq_fetchAll hq hk fuel]

/-- Completeness for a query that is `page` on a sorted list up to a projection. -/
theorem fetchLoop_complete {α : Type} {lt : κ → κ → Bool} (ht : StrictTotal lt) {xs : List (κ × ν)}
    (h : Sorted lt xs) {limit : Option Nat} (hl : limit ≠ some 0)
    {q : Option κ → List α} {key : α → κ} {f : κ × ν → α}
    (hq : ∀ c, q c = (page lt xs c limit).map f) (hk : ∀ x, key (f x) = x.1)
    {fuel : Nat} (hf : xs.length + 1 ≤ fuel) :
    fetchLoop q key none fuel = xs.map f := by
  rw [fetchLoop_eq_fetchAll hq hk, fetchAll_complete ht h (effLimit_pos hl) hf]

/-! ## 4. `sortedEntries` -/

theorem sortedEntries_perm (lt : κ → κ → Bool) (m : AMap κ ν) : (sortedEntries lt m).Perm m :=
  List.mergeSort_perm _ _

@[simp] theorem sortedEntries_length (lt : κ → κ → Bool) (m : AMap κ ν) : (sortedEntries lt m).length = m.length :=
  (sortedEntries_perm lt m).length_eq

theorem mem_sortedEntries {lt : κ → κ → Bool} {m : AMap κ ν} {x : κ × ν} : x ∈ sortedEntries lt m ↔ x ∈ m :=
  (sortedEntries_perm lt m).mem_iff

section
variable [DecidableEq κ]
set_option linter.unusedSectionVars false

theorem sortedEntries_nodupKeys {lt : κ → κ → Bool} {m : AMap κ ν} (hm : AMap.NodupKeys m) :
    AMap.NodupKeys (sortedEntries lt m) := by
  unfold AMap.NodupKeys AMap.keys at *
  exact (((sortedEntries_perm lt m).map (·.1)).nodup_iff).mpr hm

/-- The storage iteration order is strictly ascending in the key. -/
theorem sortedEntries_sorted {lt : κ → κ → Bool} {m : AMap κ ν} (hm : AMap.NodupKeys m) (ht : StrictTotal lt) :
    Sorted lt (sortedEntries lt m) := by
  have hle : (sortedEntries lt m).Pairwise (fun a b => (!(lt b.1 a.1)) = true) := by
    unfold sortedEntries
    apply List.pairwise_mergeSort (le := fun (a b : κ × ν) => !(lt b.1 a.1))
    · intro a b c hab hbc
      simp only [Bool.not_eq_true'] at *
      cases hca : lt c.1 a.1 with
      | false => rfl
      | true =>
        by_cases e : a.1 = b.1
        · rw [← e, hca] at hbc; cases hbc
        · rcases ht.total _ _ e with h1 | h1
          · rw [ht.trans _ _ _ hca h1] at hbc; cases hbc
          · rw [h1] at hab; cases hab
    · intro a b
      cases hba : lt b.1 a.1 with
      | false => simp
      | true => simp [ht.asymm hba]
  have hne : (sortedEntries lt m).Pairwise (fun a b => a.1 ≠ b.1) := by
    have := sortedEntries_nodupKeys (lt := lt) hm
    unfold AMap.NodupKeys AMap.keys List.Nodup at this
    exact List.pairwise_map.mp this
  refine List.Pairwise.imp ?_ (hle.and hne)
  intro a b ⟨h1, h2⟩
  rcases ht.total _ _ h2 with h | h
  · exact h
  · rw [h] at h1; cases h1

end

/-- A strictly sorted list is determined by its set of entries: two sorted permutations coincide. -/
theorem Sorted.eq_of_perm {lt : κ → κ → Bool} (ht : StrictTotal lt) {xs ys : List (κ × ν)}
    (hx : Sorted lt xs) (hy : Sorted lt ys) (hp : xs.Perm ys) : xs = ys := by
  refine List.Perm.eq_of_pairwise (le := fun (a b : κ × ν) => lt a.1 b.1 = true) ?_ hx hy hp
  intro a b _ _ hab hba
  rw [ht.asymm hab] at hba; cases hba

/-- Sorting an already sorted list of entries changes nothing. -/
theorem sortedEntries_of_sorted {lt : κ → κ → Bool} (ht : StrictTotal lt) {m : AMap κ ν} (h : Sorted lt m) :
    sortedEntries lt m = m := by
  unfold sortedEntries
  apply List.mergeSort_of_pairwise
  exact List.Pairwise.imp (fun hab => by simp [ht.asymm hab]) h

/-- In a map without duplicate keys, lookup is membership. -/
theorem _root_.CwPlus.AMap.get?_eq_some_iff [DecidableEq κ] {m : AMap κ ν} (hm : AMap.NodupKeys m) {k : κ} {v : ν} :
    AMap.get? m k = some v ↔ (k, v) ∈ m := by
  induction m with
  | nil => simp
  | cons p rest ih =>
    obtain ⟨k', v'⟩ := p
    have hm' : AMap.NodupKeys rest ∧ k' ∉ AMap.keys rest := by
      unfold AMap.NodupKeys AMap.keys at *; simp at hm; simp; exact ⟨hm.2, hm.1⟩
    by_cases e : k' = k
    · subst e
      simp only [AMap.get?, if_true, List.mem_cons, Prod.mk.injEq, true_and, Option.some.injEq]
      constructor
      · intro h; exact Or.inl h.symm
      · rintro (h | h)
        · exact h.symm
        · exact absurd (List.mem_map.mpr ⟨_, h, rfl⟩) hm'.2
    · simp only [AMap.get?, if_neg e, List.mem_cons, Prod.mk.injEq]
      rw [ih hm'.1]
      constructor
      · exact Or.inr
      · rintro (⟨h, _⟩ | h)
        · exact absurd h.symm e
        · exact h

/-- Lookup does not depend on the order of the entries (no duplicate keys). -/
theorem _root_.CwPlus.AMap.get?_perm [DecidableEq κ] {m m' : AMap κ ν} (hp : m'.Perm m) (hm : AMap.NodupKeys m) (k : κ) :
    AMap.get? m' k = AMap.get? m k := by
  have hm' : AMap.NodupKeys m' := by
    unfold AMap.NodupKeys AMap.keys at *
    exact ((hp.map (·.1)).nodup_iff).mpr hm
  apply Option.ext
  intro v
  rw [AMap.get?_eq_some_iff hm', AMap.get?_eq_some_iff hm, hp.mem_iff]

/-- Sorting the entries does not change what a point query sees. -/
theorem get?_sortedEntries [DecidableEq κ] (lt : κ → κ → Bool) {m : AMap κ ν} (hm : AMap.NodupKeys m) (k : κ) :
    AMap.get? (sortedEntries lt m) k = AMap.get? m k :=
  AMap.get?_perm (sortedEntries_perm lt m) hm k

/-- Every listed entry is what the point query returns for its key, and every key with a value is listed. -/
theorem mem_sortedEntries_iff_get? [DecidableEq κ] (lt : κ → κ → Bool) {m : AMap κ ν} (hm : AMap.NodupKeys m)
    (k : κ) (v : ν) : (k, v) ∈ sortedEntries lt m ↔ AMap.get? m k = some v := by
  rw [mem_sortedEntries, AMap.get?_eq_some_iff hm]

/-- The sum over the listing equals the sum over the map. -/
theorem sum_sortedEntries [DecidableEq κ] (lt : κ → κ → Bool) (m : AMap κ Nat) :
    AMap.sum (sortedEntries lt m) = AMap.sum m := by
  unfold AMap.sum
  exact ((sortedEntries_perm lt m).map (·.2)).sum_nat

/-- **One line per listing**: a query that is `page lt (sortedEntries lt m) · limit` (up to a
projection `f`) is paginated completely: the client loop returns the whole listing. -/
theorem fetchLoop_sortedEntries [DecidableEq κ] {α : Type} {lt : κ → κ → Bool} (ht : StrictTotal lt)
    {m : AMap κ ν} (hm : AMap.NodupKeys m) {limit : Option Nat} (hl : limit ≠ some 0)
    {q : Option κ → List α} {key : α → κ} {f : κ × ν → α}
    (hq : ∀ c, q c = (page lt (sortedEntries lt m) c limit).map f) (hk : ∀ x, key (f x) = x.1)
    {fuel : Nat} (hf : m.length + 1 ≤ fuel) :
    fetchLoop q key none fuel = (sortedEntries lt m).map f :=
  fetchLoop_complete ht (sortedEntries_sorted hm ht) hl hq hk (by simpa using hf)

/-! ## 5. Instances -/

theorem strictTotal_strLt : StrictTotal strLt where
  irrefl := fun a => by simp [strLt, String.lt_irrefl]
  trans := fun a b c hab hbc => by
    simp only [strLt, decide_eq_true_eq] at *
    exact String.lt_trans hab hbc
  total := fun a b hne => by
    simp only [strLt, decide_eq_true_eq]
    by_cases h1 : a < b
    · exact Or.inl h1
    · by_cases h2 : b < a
      · exact Or.inr h2
      · exact absurd (String.le_antisymm (String.not_lt.mp h2) (String.not_lt.mp h1)) hne

theorem strictTotal_natLt : StrictTotal natLt where
  irrefl := fun a => by simp [natLt]
  trans := fun a b c hab hbc => by
    simp only [natLt, decide_eq_true_eq] at *; omega
  total := fun a b hne => by
    simp only [natLt, decide_eq_true_eq]; omega

/-! ## 6. Descending and filtered variants -/

/-- Client loop for a descending listing. -/
theorem fetchAllDesc_eq (lt : κ → κ → Bool) (xs : List (κ × ν)) (limit : Option Nat) (c : Option κ) (fuel : Nat) :
    fetchAllDesc lt xs limit c fuel = fetchAll (fun a b => lt b a) xs limit c fuel := rfl

theorem pageDesc_length_le (lt : κ → κ → Bool) (xs : List (κ × ν)) (before : Option κ) (limit : Option Nat) :
    (pageDesc lt xs before limit).length ≤ effLimit limit :=
  page_length_le _ xs before limit

/-- Exclusive `start_before`: every returned key is strictly smaller than the cursor. -/
theorem pageDesc_lt_cursor (lt : κ → κ → Bool) (xs : List (κ × ν)) (c : κ) (limit : Option Nat) :
    ∀ x ∈ pageDesc lt xs (some c) limit, lt x.1 c = true :=
  page_gt_cursor (fun a b => lt b a) xs c limit

/-- Completeness of a descending listing (`ReverseProposals`): for `xs` strictly descending. -/
theorem fetchAllDesc_complete {lt : κ → κ → Bool} (ht : StrictTotal lt) {xs : List (κ × ν)}
    (h : Sorted (fun a b => lt b a) xs) {limit : Option Nat} (hl : 1 ≤ effLimit limit) {fuel : Nat}
    (hf : xs.length + 1 ≤ fuel) : fetchAllDesc lt xs limit none fuel = xs :=
  fetchAll_complete ht.flip h hl hf

theorem sortedEntriesDesc_sorted [DecidableEq κ] {lt : κ → κ → Bool} {m : AMap κ ν} (hm : AMap.NodupKeys m)
    (ht : StrictTotal lt) : Sorted (fun a b => lt b a) (sortedEntriesDesc lt m) :=
  sortedEntries_sorted hm ht.flip

/-- A strictly ascending list reversed is strictly descending. -/
theorem Sorted.reverse {lt : κ → κ → Bool} {xs : List (κ × ν)} (h : Sorted lt xs) :
    Sorted (fun a b => lt b a) xs.reverse :=
  List.pairwise_reverse.mpr h

/-- The descending storage order is the ascending one reversed. -/
theorem sortedEntriesDesc_eq_reverse [DecidableEq κ] {lt : κ → κ → Bool} {m : AMap κ ν} (hm : AMap.NodupKeys m)
    (ht : StrictTotal lt) : sortedEntriesDesc lt m = (sortedEntries lt m).reverse :=
  Sorted.eq_of_perm ht.flip (sortedEntriesDesc_sorted hm ht) (sortedEntries_sorted hm ht).reverse
    ((sortedEntries_perm _ m).trans ((List.reverse_perm _).trans (sortedEntries_perm lt m)).symm)

/-- Filtering commutes with the cursor: `range(after).filter(p).take(n)` is a page of the filtered listing. -/
theorem afterCursor_filter (lt : κ → κ → Bool) (xs : List (κ × ν)) (p : κ × ν → Bool) (after : Option κ) :
    (afterCursor lt xs after).filter p = afterCursor lt (xs.filter p) after := by
  cases after with
  | none => rfl
  | some c => simp only [afterCursor, List.filter_filter]; congr 1; funext x; exact Bool.and_comm _ _

theorem pageFiltered_eq (lt : κ → κ → Bool) (p : κ × ν → Bool) (xs : List (κ × ν)) (after : Option κ)
    (limit : Option Nat) : pageFiltered lt p xs after limit = page lt (xs.filter p) after limit := by
  unfold pageFiltered page; rw [afterCursor_filter]

/-- Completeness of a filtered listing: every item satisfying `p` exactly once, in order. -/
theorem fetchAll_filter_complete {lt : κ → κ → Bool} (ht : StrictTotal lt) {xs : List (κ × ν)} (h : Sorted lt xs)
    (p : κ × ν → Bool) {limit : Option Nat} (hl : 1 ≤ effLimit limit) {fuel : Nat}
    (hf : (xs.filter p).length + 1 ≤ fuel) : fetchAll lt (xs.filter p) limit none fuel = xs.filter p :=
  fetchAll_complete ht (h.filter p) hl hf

/-- **One line per descending listing**: a query that is
`pageDesc lt (sortedEntriesDesc lt m) · limit` up to a projection is paginated completely. -/
theorem fetchLoop_sortedEntriesDesc [DecidableEq κ] {α : Type} {lt : κ → κ → Bool} (ht : StrictTotal lt)
    {m : AMap κ ν} (hm : AMap.NodupKeys m) {limit : Option Nat} (hl : limit ≠ some 0)
    {q : Option κ → List α} {key : α → κ} {f : κ × ν → α}
    (hq : ∀ c, q c = (pageDesc lt (sortedEntriesDesc lt m) c limit).map f) (hk : ∀ x, key (f x) = x.1)
    {fuel : Nat} (hf : m.length + 1 ≤ fuel) :
    fetchLoop q key none fuel = (sortedEntriesDesc lt m).map f :=
  fetchLoop_sortedEntries ht.flip hm hl hq hk hf

/-- **One line per filtered listing**: a query that is
`pageFiltered lt p (sortedEntries lt m) · limit` up to a projection returns exactly the entries
satisfying `p`, each once, in key order. -/
theorem fetchLoop_sortedEntries_filtered [DecidableEq κ] {α : Type} {lt : κ → κ → Bool} (ht : StrictTotal lt)
    {m : AMap κ ν} (hm : AMap.NodupKeys m) (p : κ × ν → Bool) {limit : Option Nat} (hl : limit ≠ some 0)
    {q : Option κ → List α} {key : α → κ} {f : κ × ν → α}
    (hq : ∀ c, q c = (pageFiltered lt p (sortedEntries lt m) c limit).map f) (hk : ∀ x, key (f x) = x.1)
    {fuel : Nat} (hf : m.length + 1 ≤ fuel) :
    fetchLoop q key none fuel = ((sortedEntries lt m).filter p).map f := by
  refine fetchLoop_complete ht ((sortedEntries_sorted hm ht).filter p) hl
    (fun c => by rw [hq c, pageFiltered_eq]) hk ?_
  have := List.length_filter_le p (sortedEntries lt m)
  rw [sortedEntries_length] at this
  omega

/-! ## 7. Completeness from an arbitrary cursor -/

/-- **Completeness from any cursor whatsoever** (a key of the listing, e.g. one taken from an earlier page, or
any other value of the key type): the client loop started at `start_after = c` returns exactly the items whose
key is strictly greater than `c`, each once, in key order. -/
theorem fetchAll_after {lt : κ → κ → Bool} (ht : StrictTotal lt) {xs : List (κ × ν)} (h : Sorted lt xs)
    {limit : Option Nat} (hl : 1 ≤ effLimit limit) (c : κ) {fuel : Nat}
    (hf : (xs.filter (fun x => lt c x.1)).length + 1 ≤ fuel) :
    fetchAll lt xs limit (some c) fuel = xs.filter (fun x => lt c x.1) := by
  obtain ⟨pre, hpre⟩ := filter_gt_suffix ht c h
  generalize hsuf : xs.filter (fun x => lt c x.1) = suf at hf hpre ⊢
  cases fuel with
  | zero => omega
  | succ fuel =>
    have hp : page lt xs (some c) limit = suf.take (effLimit limit) := by
      simp only [page, afterCursor, hsuf]
    rw [fetchAll]
    simp only [hp]
    cases hlast : (suf.take (effLimit limit)).getLast? with
    | none =>
      have := List.getLast?_eq_none_iff.mp hlast
      rcases List.take_eq_nil_iff.mp this with h0 | h0
      · omega
      · simp [h0]
    | some last =>
      simp only []
      have hne : suf ≠ [] := by rintro rfl; simp at hlast
      have hx : xs = (pre ++ suf.take (effLimit limit)) ++ suf.drop (effLimit limit) := by
        rw [List.append_assoc, List.take_append_drop, hpre]
      have hlen : (suf.drop (effLimit limit)).length + 1 ≤ fuel := by
        have : 0 < suf.length := List.length_pos_iff.mpr hne
        rw [List.length_drop]; omega
      have ih := fetchAll_from ht hl fuel (pre ++ suf.take (effLimit limit)) (suf.drop (effLimit limit))
        (hx ▸ h) hlen
      rw [cursorOf_append_of_getLast? hlast, ← hx] at ih
      rw [ih, List.take_append_drop]

/-- The same for a query that is `page` on a sorted list up to a projection. -/
theorem fetchLoop_after {α : Type} {lt : κ → κ → Bool} (ht : StrictTotal lt) {xs : List (κ × ν)}
    (h : Sorted lt xs) {limit : Option Nat} (hl : limit ≠ some 0)
    {q : Option κ → List α} {key : α → κ} {f : κ × ν → α}
    (hq : ∀ c, q c = (page lt xs c limit).map f) (hk : ∀ x, key (f x) = x.1) (c : κ)
    {fuel : Nat} (hf : xs.length + 1 ≤ fuel) :
    fetchLoop q key (some c) fuel = (xs.filter (fun x => lt c x.1)).map f := by
  rw [fetchLoop_eq_fetchAll hq hk, fetchAll_after ht h (effLimit_pos hl) c]
  have := List.length_filter_le (fun x : κ × ν => lt c x.1) xs
  omega

/-- **One line per listing, any cursor**: a query that is `page lt (sortedEntries lt m) · limit` (up to a
projection `f`), started from any cursor `c`, returns exactly the entries with key above `c`. -/
theorem fetchLoop_sortedEntries_after [DecidableEq κ] {α : Type} {lt : κ → κ → Bool} (ht : StrictTotal lt)
    {m : AMap κ ν} (hm : AMap.NodupKeys m) {limit : Option Nat} (hl : limit ≠ some 0)
    {q : Option κ → List α} {key : α → κ} {f : κ × ν → α}
    (hq : ∀ c, q c = (page lt (sortedEntries lt m) c limit).map f) (hk : ∀ x, key (f x) = x.1) (c : κ)
    {fuel : Nat} (hf : m.length + 1 ≤ fuel) :
    fetchLoop q key (some c) fuel = ((sortedEntries lt m).filter (fun x => lt c x.1)).map f :=
  fetchLoop_after ht (sortedEntries_sorted hm ht) hl hq hk c (by simpa using hf)

/-- Descending listings, any cursor `start_before = c`: exactly the entries with key below `c`, descending. -/
theorem fetchLoop_sortedEntriesDesc_after [DecidableEq κ] {α : Type} {lt : κ → κ → Bool} (ht : StrictTotal lt)
    {m : AMap κ ν} (hm : AMap.NodupKeys m) {limit : Option Nat} (hl : limit ≠ some 0)
    {q : Option κ → List α} {key : α → κ} {f : κ × ν → α}
    (hq : ∀ c, q c = (pageDesc lt (sortedEntriesDesc lt m) c limit).map f) (hk : ∀ x, key (f x) = x.1) (c : κ)
    {fuel : Nat} (hf : m.length + 1 ≤ fuel) :
    fetchLoop q key (some c) fuel = ((sortedEntriesDesc lt m).filter (fun x => lt x.1 c)).map f :=
  fetchLoop_sortedEntries_after ht.flip hm hl hq hk c hf

/-- Filtered listings, any cursor: exactly the entries satisfying `p` with key above `c`. -/
theorem fetchLoop_sortedEntries_filtered_after [DecidableEq κ] {α : Type} {lt : κ → κ → Bool} (ht : StrictTotal lt)
    {m : AMap κ ν} (hm : AMap.NodupKeys m) (p : κ × ν → Bool) {limit : Option Nat} (hl : limit ≠ some 0)
    {q : Option κ → List α} {key : α → κ} {f : κ × ν → α}
    (hq : ∀ c, q c = (pageFiltered lt p (sortedEntries lt m) c limit).map f) (hk : ∀ x, key (f x) = x.1) (c : κ)
    {fuel : Nat} (hf : m.length + 1 ≤ fuel) :
    fetchLoop q key (some c) fuel = (((sortedEntries lt m).filter p).filter (fun x => lt c x.1)).map f := by
  refine fetchLoop_after ht ((sortedEntries_sorted hm ht).filter p) hl
    (fun c => by rw [hq c, pageFiltered_eq]) hk c ?_
  have := List.length_filter_le p (sortedEntries lt m)
  rw [sortedEntries_length] at this
  omega

/-- On a sorted listing the items at or below a cursor and the items above it partition the listing, in this
order: what a client skipped plus what the loop from `c` returns is everything. -/
theorem filter_le_append_filter_gt {lt : κ → κ → Bool} (ht : StrictTotal lt) (c : κ) :
    ∀ {xs : List (κ × ν)}, Sorted lt xs →
      xs.filter (fun x => !lt c x.1) ++ xs.filter (fun x => lt c x.1) = xs
  | [], _ => rfl
  | x :: rest, h => by
    have h' := List.pairwise_cons.mp h
    by_cases hc : lt c x.1 = true
    · have e1 : (x :: rest).filter (fun x => lt c x.1) = x :: rest := by
        rw [List.filter_eq_self]
        intro a ha
        rcases List.mem_cons.mp ha with rfl | ha
        · exact hc
        · exact ht.trans _ _ _ hc (h'.1 a ha)
      have e2 : (x :: rest).filter (fun x => !lt c x.1) = [] := by
        rw [List.filter_eq_nil_iff]
        intro a ha
        have : a ∈ (x :: rest).filter (fun x => lt c x.1) := by rw [e1]; exact ha
        simp [(List.mem_filter.mp this).2]
      rw [e1, e2]; rfl
    · rw [List.filter_cons_of_pos (by simpa using hc), List.filter_cons_of_neg (by simpa using hc)]
      rw [List.cons_append, filter_le_append_filter_gt ht c h'.2]

/-! ## 8. How many requests the client loop needs -/

/-- The loop needs one request per full page plus the final empty (or short) one: if the remaining items fit
into `k` pages, `k + 1` requests suffice. -/
theorem fetchAll_from_pages {lt : κ → κ → Bool} (ht : StrictTotal lt) {limit : Option Nat} (hl : 1 ≤ effLimit limit) :
    ∀ (k : Nat) (pre suf : List (κ × ν)), Sorted lt (pre ++ suf) → suf.length ≤ k * effLimit limit →
      fetchAll lt (pre ++ suf) limit (cursorOf pre) (k + 1) = suf
  | 0, pre, suf, h, hf => by
    have : suf = [] := List.eq_nil_of_length_eq_zero (by omega)
    subst this
    have hp : page lt (pre ++ []) (cursorOf pre) limit = [] := by
      unfold page; rw [afterCursor_cursorOf ht h]; exact List.take_nil
    rw [fetchAll]; simp only [hp]; rfl
  | k + 1, pre, suf, h, hf => by
    have hp : page lt (pre ++ suf) (cursorOf pre) limit = suf.take (effLimit limit) := by
      unfold page; rw [afterCursor_cursorOf ht h]
    rw [fetchAll]
    simp only [hp]
    cases hlast : (suf.take (effLimit limit)).getLast? with
    | none =>
      have := List.getLast?_eq_none_iff.mp hlast
      rcases List.take_eq_nil_iff.mp this with h0 | h0
      · omega
      · simp [h0]
    | some last =>
      simp only []
      have hx : pre ++ suf = (pre ++ suf.take (effLimit limit)) ++ suf.drop (effLimit limit) := by
        rw [List.append_assoc, List.take_append_drop]
      have hlen : (suf.drop (effLimit limit)).length ≤ k * effLimit limit := by
        rw [List.length_drop]
        rw [Nat.succ_mul] at hf
        omega
      have ih := fetchAll_from_pages ht hl k (pre ++ suf.take (effLimit limit)) (suf.drop (effLimit limit))
        (hx ▸ h) hlen
      rw [cursorOf_append_of_getLast? hlast, ← hx] at ih
      rw [ih, List.take_append_drop]

/-- `⌊n / effLimit⌋ + 2` requests always suffice for a listing of `n` items. -/
theorem fetchAll_complete_pages {lt : κ → κ → Bool} (ht : StrictTotal lt) {xs : List (κ × ν)} (h : Sorted lt xs)
    {limit : Option Nat} (hl : 1 ≤ effLimit limit) :
    fetchAll lt xs limit none (xs.length / effLimit limit + 2) = xs := by
  have hk : xs.length ≤ (xs.length / effLimit limit + 1) * effLimit limit := by
    have h1 := Nat.div_add_mod xs.length (effLimit limit)
    have h2 := Nat.mod_lt xs.length (show 0 < effLimit limit by omega)
    rw [Nat.succ_mul, Nat.mul_comm]
    omega
  have := fetchAll_from_pages ht hl (xs.length / effLimit limit + 1) [] xs (by simpa using h) hk
  simpa using this

end CwPlus.Paginate
