import CwPlus.Lemmas.Cw3Core
import CwPlus.Lemmas.Paginate
/-!
# cw3 core: `PROPOSALS` never holds an id twice; the proposal listings as pages

* `propose/vote/execute/close_nodup`: the four core operations only `set` entries of `PROPOSALS`, so
  `AMap.NodupKeys c.proposals` is preserved (the ballots of one proposal are covered by `WF.nodup`);
* `pageDesc_eq`: the model's own descending page (`Cw3Core.pageDesc`: filter the ascending listing, reverse,
  take) is `Paginate.pageDesc` on the descending listing;
* `viewAll_eq_map`: when the status of every listed proposal is computable at the query block,
  `viewAll` is a plain `map` (and otherwise it fails: `viewAll_ok_all`).
Core only.
-/
namespace CwPlus.Cw3Core
open CwPlus CwPlus.Cw3 CwPlus.Paginate

theorem propose_nodup {c c' : Core} {blk : Block} {snd : Addr} {w : Nat} {thr : Threshold} {total : Nat} {maxP : Duration}
    {t d : String} {msgs : List Msg} {latest : Option Expiration} {dep : Option Deposit} {id : Nat}
    (h : propose c blk snd w thr total maxP t d msgs latest dep = .ok (c', id)) (hn : AMap.NodupKeys c.proposals) :
    AMap.NodupKeys c'.proposals := by
  obtain ⟨_, _, _, _, _, _, rfl⟩ := propose_spec h
  exact AMap.nodup_set hn

theorem vote_nodup {c c' : Core} {blk : Block} {snd : Addr} {id : Nat} {v : Vote} {weight : Proposal → Option Nat}
    (h : vote c blk snd id v weight = .ok c') (hn : AMap.NodupKeys c.proposals) : AMap.NodupKeys c'.proposals := by
  obtain ⟨_, _, _, _, _, _, _, _, _, _, _, _, rfl⟩ := vote_spec h
  exact AMap.nodup_set hn

theorem execute_nodup {c c' : Core} {blk : Block} {id : Nat} {auth : Bool} {out : List Msg}
    (h : execute c blk id auth = .ok (c', out)) (hn : AMap.NodupKeys c.proposals) : AMap.NodupKeys c'.proposals := by
  obtain ⟨_, _, _, _, _, rfl⟩ := execute_spec h
  exact AMap.nodup_set hn

theorem close_nodup {c c' : Core} {blk : Block} {id : Nat} (h : close c blk id = .ok c')
    (hn : AMap.NodupKeys c.proposals) : AMap.NodupKeys c'.proposals := by
  obtain ⟨_, _, _, _, _, _, _, _, _, rfl⟩ := close_spec h
  exact AMap.nodup_set hn

theorem nodup_empty : AMap.NodupKeys Core.empty.proposals := by
  simp [Core.empty, AMap.NodupKeys, AMap.keys]

/-! ## the descending page -/

/-- The model's descending page of an ascending list is the generic descending page of the reversed list. -/
theorem pageDesc_eq_reverse {κ ν : Type} (lt : κ → κ → Bool) (xs : List (κ × ν)) (before : Option κ)
    (limit : Option Nat) : Cw3Core.pageDesc lt xs before limit = Paginate.pageDesc lt xs.reverse before limit := by
  cases before with
  | none => rfl
  | some c => simp [Cw3Core.pageDesc, Paginate.pageDesc, page, afterCursor, List.filter_reverse]

/-- `reverse_proposals` pages through the descending storage order. -/
theorem pageDesc_eq {κ ν : Type} [DecidableEq κ] {lt : κ → κ → Bool} (ht : StrictTotal lt) {m : AMap κ ν}
    (hm : AMap.NodupKeys m) (before : Option κ) (limit : Option Nat) :
    Cw3Core.pageDesc lt (sortedEntries lt m) before limit = Paginate.pageDesc lt (sortedEntriesDesc lt m) before limit := by
  rw [pageDesc_eq_reverse, sortedEntriesDesc_eq_reverse hm ht]

theorem pageDesc_length_le {κ ν : Type} (lt : κ → κ → Bool) (xs : List (κ × ν)) (before : Option κ)
    (limit : Option Nat) : (Cw3Core.pageDesc lt xs before limit).length ≤ effLimit limit := by
  rw [pageDesc_eq_reverse]; exact Paginate.pageDesc_length_le _ _ _ _

/-! ## `viewAll` -/

/-- The view of a stored proposal whose status is computable (the stored status otherwise; never used then). -/
def viewD (blk : Block) (x : Nat × Proposal) : ProposalView :=
  { id := x.1, title := x.2.title, description := x.2.description, msgs := x.2.msgs,
    status := (match x.2.currentStatus blk with | .ok st => st | .error _ => x.2.status),
    expires := x.2.expires, deposit := x.2.deposit, proposer := x.2.proposer, threshold := x.2.threshold,
    totalWeight := x.2.totalWeight }

@[simp] theorem viewD_id (blk : Block) (x : Nat × Proposal) : (viewD blk x).id = x.1 := rfl

theorem viewOf_eq_viewD {blk : Block} {id : Nat} {p : Proposal} {st : Status} (h : p.currentStatus blk = .ok st) :
    viewOf blk id p = .ok (viewD blk (id, p)) := by
  simp [viewOf, viewD, h, bind, Except.bind, pure, Except.pure]

theorem viewOf_error {blk : Block} {id : Nat} {p : Proposal} {e : String} (h : p.currentStatus blk = .error e) :
    viewOf blk id p = .error e := by
  simp [viewOf, h, bind, Except.bind]

/-- When every listed proposal has a status at the query block, `viewAll` maps `viewD` over the page. -/
theorem viewAll_eq_map {blk : Block} : ∀ {l : List (Nat × Proposal)},
    (∀ x ∈ l, ∃ st, x.2.currentStatus blk = .ok st) → viewAll blk l = .ok (l.map (viewD blk))
  | [], _ => rfl
  | (id, p) :: rest, h => by
    obtain ⟨st, hst⟩ := h (id, p) (by simp)
    have ih := viewAll_eq_map (blk := blk) (l := rest) (fun x hx => h x (List.mem_cons_of_mem _ hx))
    simp [viewAll, viewOf_eq_viewD hst, ih, bind, Except.bind, pure, Except.pure]

/-- `viewAll` succeeds only if every listed proposal has a status at the query block, and then returns one view
per entry, in order. -/
theorem viewAll_ok_all {blk : Block} : ∀ {l : List (Nat × Proposal)} {vs : List ProposalView},
    viewAll blk l = .ok vs → (∀ x ∈ l, ∃ st, x.2.currentStatus blk = .ok st) ∧ vs = l.map (viewD blk)
  | [], vs, h => by simp [viewAll] at h; subst h; simp
  | (id, p) :: rest, vs, h => by
    cases hst : p.currentStatus blk with
    | error e => simp [viewAll, viewOf_error hst, bind, Except.bind] at h
    | ok st =>
      simp only [viewAll, viewOf_eq_viewD hst] at h
      cases hr : viewAll blk rest with
      | error e => simp [hr, bind, Except.bind] at h
      | ok vs' =>
        simp [hr, bind, Except.bind, pure, Except.pure] at h
        obtain ⟨hall, rfl⟩ := viewAll_ok_all hr
        subst h
        refine ⟨?_, by simp⟩
        intro x hx
        rcases List.mem_cons.mp hx with rfl | hx
        · exact ⟨st, hst⟩
        · exact hall x hx

theorem viewAll_length {blk : Block} {l : List (Nat × Proposal)} {vs : List ProposalView}
    (h : viewAll blk l = .ok vs) : vs.length = l.length := by
  rw [(viewAll_ok_all h).2, List.length_map]

end CwPlus.Cw3Core
