import CwPlus.Base.Num
import CwPlus.Base.Expiration
import CwPlus.Base.AMap
import CwPlus.Base.Wire
import CwPlus.Base.Paginate
import CwPlus.Model.Cw20
