import CwPlus.Driver.All
/-!
Line-protocol driver: reads a trace file on stdin, runs every trace on the
model of its scenario, prints findings and one summary line per trace.
-/
open CwPlus CwPlus.Driver

partial def readAll (h : IO.FS.Stream) (acc : Array String) : IO (Array String) := do
  let line ← h.getLine
  if line.isEmpty then return acc
  readAll h (acc.push (line.dropRightWhile (fun c => c == '\n' || c == '\r')))

def main : IO Unit := do
  let stdin ← IO.getStdin
  let lines ← readAll stdin #[]
  let traces := splitTraces lines.toList
  let out ← IO.getStdout
  for (h, b) in traces do
    for l in runOne h b do
      out.putStrLn l
  out.putStrLn s!"DONE traces={traces.length}"
