import CwPlus.Driver.Common
import CwPlus.Driver.Cw20
/-!
Line-protocol driver: reads a trace file on stdin, runs every trace on the
model of its scenario, prints findings and one summary line per trace.
-/
open CwPlus CwPlus.Driver

def runOne (header : String) (body : List String) : List String :=
  match (Wire.tokens header) with
  | _ :: "cw20" :: _ => runTrace Cw20.scen header body
  | _ :: name :: _ => [s!"T ? ERROR unknown-scenario={name}"]
  | _ => ["T ? ERROR bad-header"]

partial def readAll (h : IO.FS.Stream) (acc : Array String) : IO (Array String) := do
  let line ← h.getLine
  if line.isEmpty then return acc
  readAll h (acc.push (line.dropRightWhile (fun c => c == '\n' || c == '\r')))

def main : IO Unit := do
  let stdin ← IO.getStdin
  let lines ← readAll stdin #[]
  let traces := splitTraces lines.toList
  let out ← IO.getStdout
  for (h, b) in traces do
    for l in runOne h b do
      out.putStrLn l
  out.putStrLn s!"DONE traces={traces.length}"
