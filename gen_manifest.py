#!/usr/bin/env python3
"""Regenerate MANIFEST.json from props_config.py + manifest_meta.json (texts)."""
import json, os, sys
ROOT = os.path.dirname(os.path.abspath(__file__))
sys.path.insert(0, ROOT)
from props_config import PROPS
meta = json.load(open(os.path.join(ROOT, "manifest_meta.json")))
ALL = ["C%02d" % i for i in range(1, 21)]
checks = []
for pid in ALL:
    if pid not in PROPS:
        continue
    m = meta["checks"][pid]
    checks.append({
        "property_id": pid,
        "quick_cmd": f"./check {pid} --tier quick",
        "thorough_cmd": f"./check {pid} --tier thorough",
        "evidence_file": f"/verif/evidence/{pid}.json",
        "replay_cmd_template": f"./check {pid} --replay {{path}}",
        "engine": "lean4-proof+correspondence",
        "level_claimed": {"category": "proof", "text": m["text"], "design_ref": m.get("design_ref", "DESIGN.md §7")},
        "level_note": m["note"],
        "technique": m.get("technique", "Lean 4 theorems about a hand-written executable model (induction over histories), model tied to the Rust code by a lock-step differential correspondence check"),
    })
na = [{"property_id": pid, "reason": meta["not_yet"].get(pid, "not yet built in this revision of /verif; planned as a Lean 4 proof (DESIGN.md §7)")}
      for pid in ALL if pid not in PROPS]
man = {
    "version": 1,
    "setup_cmd": "./setup.sh",
    "hooks": {
        "guard": "cw_plus_verif",
        "enable": "none needed: all entry points and state items used by the harness are already public; the guard name is reserved (--cfg cw_plus_verif)",
        "baseline_off_cmd": "cd /repo && cargo test --workspace --no-fail-fast --offline",
        "source_commits": [],
        "add_only": True,
    },
    "engines": [
        {"name": "lean4-proof+correspondence", "path": "/verif/check",
         "serves_properties": [c["property_id"] for c in checks],
         "kind_free_text": "Lean 4 theorems (lean/CwPlus/CwPlus/Props) about hand-written executable models (CwPlus/Model); Rust harness (harness/) drives the real entry points; Lean driver (Main.lean) replays the same op lines on the model, diffs outcomes/observations and evaluates property monitors"}
    ],
    "checks": checks,
    "not_applicable": na,
    "notes": meta.get("notes", ""),
}
json.dump(man, open(os.path.join(ROOT, "MANIFEST.json"), "w"), indent=1)
print("MANIFEST.json:", len(checks), "checks,", len(na), "not claimed")
